"""Stream generators for the whole-decoder checks (C01, also used by C17): structured Teletext networks
(normal pages, Level 2.5 enhancement, MOT / POP / DRCS / MIP / TOP pages, 8/30), caption + XDS + ITV streams,
VPS, WSS, noise - every random choice comes from the `rng` passed in."""
import random
import ttxenc as T
from ttxenh import pack_bits, x27_4, lut_packets, top_link

MODES_COL = [0x00, 0x01, 0x02, 0x03, 0x06, 0x07, 0x08, 0x09, 0x0B, 0x0C, 0x0D, 0x0E, 0x0F] + list(range(0x10, 0x20))
MODES_ROW = [0x00, 0x01, 0x04, 0x07, 0x10, 0x11, 0x12, 0x13, 0x15, 0x16, 0x17, 0x18, 0x1F, 0x08, 0x0A]

SPACING = list(range(0x00, 0x20))
WORDS = ["hello", "world", "NEWS", "sport", "Wetter", "index", "100", "zvbi", "text", "Page", "abc", "xyz", "TV", "a", ""]


def rtext(rng, n=40, p_ctrl=0.12):
    out = []
    while len(out) < n:
        k = rng.random()
        if k < p_ctrl:
            out.append(rng.choice(SPACING))
        elif k < 0.5:
            out += [ord(c) for c in rng.choice(WORDS)] + [0x20]
        else:
            out.append(rng.randrange(0x20, 0x80))
    return [T.par(b) for b in out[:n]]


def noise(rng, b, p=0.01):
    """flip one or two bits in a few bytes"""
    b = list(b)
    for i in range(len(b)):
        if rng.random() < p:
            b[i] ^= 1 << rng.randrange(8)
            if rng.random() < 0.3:
                b[i] ^= 1 << rng.randrange(8)
    return b


class Net:
    """a small pool of page numbers so that links, MOT tables and object pointers hit real pages"""

    def __init__(self, rng):
        self.rng = rng
        self.mags = rng.sample(range(1, 9), rng.randrange(1, 4))
        self.pool = []
        for m in self.mags:
            for _ in range(rng.randrange(2, 6)):
                k = rng.random()
                if k < 0.7:
                    pg = rng.randrange(0, 10) * 16 + rng.randrange(0, 10)
                else:
                    pg = rng.randrange(0, 0xFF)
                self.pool.append((m, pg))
        self.special = []
        for m in self.mags:
            self.special += [(m, 0xFE, "mot"), (m, 0xFD, "mip")]
            for _ in range(rng.randrange(0, 3)):
                self.special.append((m, rng.choice([0xA0, 0xA1, 0xB0, 0xC5, 0xDF, 0xE0]), rng.choice(["pop", "gpop", "drcs", "gdrcs"])))
        if rng.random() < 0.5 and 1 in self.mags:
            self.special += [(1, 0xF0, "btt"), (1, 0xF1, "mpt"), (1, 0xF2, "ait"), (1, 0xF3, "mptex")]
        self.serial = rng.random() < 0.3

    def pgno(self, mp):
        return ((mp[0] & 7) or 8) * 256 + mp[1]

    def any_pgno(self):
        r = self.rng
        k = r.random()
        if k < 0.6 and self.pool:
            return self.pgno(r.choice(self.pool))
        if k < 0.85 and self.special:
            s = r.choice(self.special)
            return self.pgno(s)
        return r.choice([0x100, 0x8FF, 0x1FF, 0x899, 0x7FE, 0x1F0, 0xFF, 0x900, 0, r.randrange(0x100, 0x900)])

    def flags(self):
        r = self.rng
        f = 0
        if r.random() < 0.5: f |= T.C4_ERASE
        if self.serial: f |= T.C11_SERIAL
        for bit, p in ((T.C5_NEWSFLASH, .05), (T.C6_SUBTITLE, .05), (T.C7_SUPPRESS, .05), (T.C8_UPDATE, .2),
                       (T.C9_INTERRUPTED, .05), (T.C10_INHIBIT, .05)):
            if r.random() < p: f |= bit
        return f

    def subcode(self):
        r = self.rng
        k = r.random()
        if k < 0.5: return 0
        if k < 0.8: return r.randrange(1, 8) | (r.randrange(0, 8) << 4 if r.random() < 0.3 else 0)
        if k < 0.9: return r.choice([0x2359, 0x1200, 0x0059, 0x3F7F, 0x0079, 0x0080])
        return r.randrange(0x4000) & 0x3F7F

    def link(self):
        r = self.rng
        return (self.any_pgno(), r.choice([0x3F7F, 0, 1, r.randrange(0x4000) & 0x3F7F]))

    def hdr_text(self, mp):
        return "%1d%02X ZVBI Mon 29 Sep \x03%02d:%02d:%02d" % (mp[0], mp[1], self.rng.randrange(24), self.rng.randrange(60), self.rng.randrange(60))

    # --- packets of one transmission of a page -------------------------------------------------
    def triplets(self, n=13):
        r = self.rng
        out = []
        for _ in range(n):
            k = r.random()
            if k < 0.35:
                out.append((r.randrange(40, 64), r.choice(MODES_ROW), r.randrange(128)))
            elif k < 0.85:
                out.append((r.randrange(0, 40), r.choice(MODES_COL), r.randrange(128)))
            elif k < 0.95:
                out.append((r.randrange(64), r.randrange(32), r.randrange(128)))
            else:
                out.append((0x3F, 0x1F, r.randrange(128)))
        return out

    def x28_triplets(self, function=None, coding=None):
        r = self.rng
        t = [r.randrange(1 << 18) for _ in range(13)]
        if function is not None:
            t[0] = (t[0] & ~0x7F) | (function & 15) | (((coding if coding is not None else r.randrange(8)) & 7) << 4)
        return t

    def lop(self, mp):
        r = self.rng
        m = mp[0]
        pk = [T.header(m, mp[1], self.subcode(), self.flags(), r.randrange(8), self.hdr_text(mp))]
        rows = [y for y in range(1, 26) if r.random() < 0.7]
        if r.random() < 0.3: r.shuffle(rows)
        for y in rows:
            pk.append(T.addr(m, y) + rtext(r))
        if r.random() < 0.5:
            pk.append(T.x27_flof(m, [self.link() for _ in range(6)], r.randrange(16)))
        if r.random() < 0.3:
            pk.append(T.x27_enh(m, r.choice([4, 5, 1, 2, 3, 6, 7, 8]), [(self.any_pgno(), r.randrange(4)) for _ in range(6)]))
        if r.random() < 0.6:
            nd = r.choice([1, 1, 2, 3, 16])
            ds = list(range(nd)) if r.random() < 0.8 else [r.randrange(16) for _ in range(nd)]
            for d in ds:
                pk.append(T.x26(m, d & 15, self.triplets()))
        if r.random() < 0.3:
            pk.append(T.x28(m, 28, r.choice([0, 4, 0, 4, 1, 2, 3]), self.x28_triplets(0, 0)))
        if r.random() < 0.1:
            pk.append(T.x28(m, 29, r.choice([0, 4, 1]), self.x28_triplets(0, 0)))
        return pk

    def ham_page(self, mp, packets, x28fn=None):
        """page whose packets 1..n are Hamming 8/4 nibbles (MOT, MIP, BTT, MPT ...)"""
        r = self.rng
        m = mp[0]
        pk = [T.header(m, mp[1], self.subcode() if r.random() < 0.3 else 0, self.flags(), 0, self.hdr_text(mp))]
        if x28fn is not None:
            pk.append(T.x28(m, 28, 0, self.x28_triplets(x28fn, r.choice([0, 1, 2, 3, 4, 5]))))
        for y in packets:
            pk.append(T.addr(m, y) + [T.ham8(r.randrange(16)) for _ in range(40)])
        return pk

    def mot(self, mp):
        r = self.rng
        m = mp[0]
        pk = [T.header(m, 0xFE, 0, self.flags(), 0, self.hdr_text(mp))]
        for y in range(1, 15):
            if r.random() < 0.8:
                pk.append(T.addr(m, y) + [T.ham8(r.randrange(16)) for _ in range(40)])
        for y in (19, 20, 22, 23):
            if r.random() < 0.8:
                b = []
                for _ in range(4):
                    pg = self.any_pgno()
                    b += [T.ham8((pg >> 8) & 7), T.ham8((pg >> 4) & 15), T.ham8(pg & 15)] + [T.ham8(r.randrange(16)) for _ in range(7)]
                pk.append(T.addr(m, y) + b)
        for y in (21, 24):
            if r.random() < 0.8:
                b = []
                for _ in range(8):
                    pg = self.any_pgno()
                    b += [T.ham8((pg >> 8) & 7), T.ham8((pg >> 4) & 15), T.ham8(pg & 15), T.ham8(r.randrange(16))]
                b += [T.ham8(0)] * 8
                pk.append(T.addr(m, y) + b[:40])
        return pk

    def pop(self, mp, kind):
        r = self.rng
        m = mp[0]
        pk = [T.header(m, mp[1], self.subcode(), self.flags(), 0, self.hdr_text(mp))]
        if r.random() < 0.7:
            pk.append(T.x28(m, 28, 0, self.x28_triplets(2 if kind == "pop" else 1, 3)))
        for y in range(1, 26):
            if r.random() < 0.7:
                b = [T.ham8(r.choice([1, 0, 1, r.randrange(16)]))]
                for a, mo, d in self.triplets():
                    b += T.triplet(a, mo, d)
                pk.append(T.addr(m, y) + b)
        for d in range(r.randrange(0, 4)):
            pk.append(T.x26(m, d, self.triplets()))
        return pk

    def drcs(self, mp, kind):
        r = self.rng
        m = mp[0]
        pk = [T.header(m, mp[1], self.subcode(), self.flags(), 0, self.hdr_text(mp))]
        if r.random() < 0.7:
            pk.append(T.x28(m, 28, r.choice([0, 3]), self.x28_triplets(5 if kind == "drcs" else 4, r.randrange(8))))
        for y in range(1, 25):
            if r.random() < 0.8:
                pk.append(T.addr(m, y) + [T.par(r.randrange(0x40, 0x80)) if r.random() < 0.9 else r.randrange(256) for _ in range(40)])
        return pk

    def page_packets(self, entry):
        r = self.rng
        if len(entry) == 2:
            pk = self.lop(entry)
        else:
            kind = entry[2]
            mp = (entry[0], entry[1])
            if kind == "mot": pk = self.mot(mp)
            elif kind == "mip": pk = self.ham_page(mp, [y for y in range(1, 15) if r.random() < 0.8])
            elif kind in ("btt", "mpt", "mptex"): pk = self.ham_page(mp, [y for y in range(1, 24) if r.random() < 0.8])
            elif kind == "ait":
                pk = [T.header(mp[0], mp[1], 0, self.flags(), 0, self.hdr_text(mp))]
                for y in range(1, 24):
                    b = []
                    for _ in range(2):
                        b += [T.ham8(r.randrange(16)) for _ in range(8)] + rtext(r, 12, 0.02)
                    pk.append(T.addr(mp[0], y) + b)
            elif kind in ("pop", "gpop"): pk = self.pop(mp, kind)
            else: pk = self.drcs(mp, kind)
        return pk

    def p830(self):
        r = self.rng
        d = r.choice([0, 1, 2, 3])
        body = [r.randrange(256) for _ in range(13)] if r.random() < 0.5 else [T.ham8(r.randrange(16)) for _ in range(13)]
        return T.p830(d, self.any_pgno(), body, "ZVBI TEST %d" % r.randrange(100))

    def transmission(self, n_pages):
        """interleaved packet stream (list of 42-byte payloads) for n_pages page transmissions"""
        r = self.rng
        streams = {}
        entries = self.pool + self.special
        for _ in range(n_pages):
            e = r.choice(entries)
            streams.setdefault(e[0], []).extend(self.page_packets(e))
        out = []
        if self.serial:
            for m in streams:
                out += streams[m]
        else:
            keys = list(streams)
            while keys:
                k = r.choice(keys)
                n = r.randrange(1, 6)
                out += streams[k][:n]
                streams[k] = streams[k][n:]
                if not streams[k]: keys.remove(k)
        # closing headers so that the last pages get stored
        for m in self.mags:
            out.append(T.header(m, 0xFF, 0x3F7F, T.C11_SERIAL if self.serial else 0, 0, "filler"))
        i = 0
        while i < len(out):
            if r.random() < 0.03: out.insert(i, self.p830()); i += 1
            i += 1
        return out


# ------------------------------------------------------------------------------------------------
# caption / XDS / ITV
def cc_stream(rng, n):
    """list of (field, b1, b2) with odd parity applied"""
    out = []
    def pair(f, a, b): out.append((f, T.par(a), T.par(b)))
    while len(out) < n:
        f = 1 if rng.random() < 0.7 else 2
        ch = rng.randrange(2)
        k = rng.random()
        if k < 0.25:      # PAC
            pair(f, 0x10 | (ch << 3) | rng.randrange(8), 0x40 | rng.randrange(0x40))
        elif k < 0.45:    # misc control 0x14/0x15 (and 0x1C/1D), 0x20-0x2F
            c1 = rng.choice([0x14, 0x15]) | (ch << 3)
            c2 = 0x20 | rng.randrange(16)
            pair(f, c1, c2)
            if rng.random() < 0.7: pair(f, c1, c2)
        elif k < 0.5:     # tab offsets, mid row, special chars, extended, background
            pair(f, rng.choice([0x11, 0x12, 0x13, 0x17, 0x10]) | (ch << 3), 0x20 | rng.randrange(0x20))
        elif k < 0.9:
            for _ in range(rng.randrange(1, 12)):
                pair(f, rng.randrange(0x20, 0x80), rng.choice([0, rng.randrange(0x20, 0x80)]))
        elif k < 0.95:
            pair(f, rng.randrange(128), rng.randrange(128))
        else:
            out.append((f, rng.randrange(256), rng.randrange(256)))
    return out


PAC_ROW = {1: (0x11, 0x40), 2: (0x11, 0x60), 3: (0x12, 0x40), 4: (0x12, 0x60), 5: (0x15, 0x40), 6: (0x15, 0x60),
           7: (0x16, 0x40), 8: (0x16, 0x60), 9: (0x17, 0x40), 10: (0x17, 0x60), 11: (0x10, 0x40), 12: (0x13, 0x40),
           13: (0x13, 0x60), 14: (0x14, 0x40), 15: (0x14, 0x60)}


def cc_script(rng, n_steps):
    """well-formed caption scripts: roll-up with every base row (also rows smaller than the roll-up depth), roll-up depth
    changes RU2 <-> RU3 <-> RU4 without leaving roll-up mode around PACs to the top rows, pop-on with EOC, paint-on, text
    mode; control codes doubled as on field 1"""
    out = []
    f = 1 if rng.random() < 0.8 else 2
    ch = rng.randrange(2)
    seen = set()      # fields that have sent a control code
    stray = rng.random() < 0.35
    def ctl(c2):
        c1 = 0x14 | (ch << 3)
        seen.add(f)
        out.append((f, T.par(c1), T.par(c2)))
        if f == 1: out.append((f, T.par(c1), T.par(c2)))
    def pac(row, extra=0):
        a, b = PAC_ROW[row]
        out.append((f, T.par(a | (ch << 3)), T.par(b | (extra & 0x1F))))
        if f == 1: out.append((f, T.par(a | (ch << 3)), T.par(b | (extra & 0x1F))))
    def txt(s):
        bs = [ord(c) & 0x7F for c in s]
        if len(bs) % 2: bs.append(0)
        for i in range(0, len(bs), 2): out.append((f, T.par(bs[i]), T.par(bs[i + 1])))
    for _ in range(n_steps):
        if stray and (3 - f) not in seen:
            # printable data of the OTHER field before any mode-setting code of that field (it has no service: discarded),
            # between the commands of the active field
            for _ in range(rng.randrange(1, 4)):
                w = rng.choice(WORDS) + " "
                bs = [ord(c) & 0x7F for c in w]
                if len(bs) % 2: bs.append(0)
                for i in range(0, len(bs), 2): out.append((3 - f, T.par(bs[i]), T.par(bs[i + 1])))
        mode = rng.choice(["ru", "ru", "rud", "pop", "paint", "text"])
        if mode == "rud":
            # depth changes inside roll-up mode (larger and smaller, every order), PACs to every row - mostly rows 1..4,
            # where the window does not fit above the base row - before and after the change, then carriage returns
            depth = rng.randrange(3)
            ctl(0x25 + depth)
            for _ in range(rng.randrange(1, 5)):
                if rng.random() < 0.8: pac(rng.randrange(1, 5) if rng.random() < 0.7 else rng.randrange(1, 16), rng.randrange(32))
                if rng.random() < 0.5: txt(rng.choice(WORDS) + " ")
                if rng.random() < 0.3: ctl(0x2D)
                depth = rng.choice([d for d in range(3) if d != depth])
                ctl(0x25 + depth)
                if rng.random() < 0.4: pac(rng.randrange(1, 5) if rng.random() < 0.7 else rng.randrange(1, 16), rng.randrange(32))
                if rng.random() < 0.5: txt(rng.choice(WORDS) + " " + rng.choice(WORDS))
                for _ in range(rng.randrange(1, 4)): ctl(0x2D)
        elif mode == "ru":
            ctl(rng.choice([0x25, 0x26, 0x27]))
            for _ in range(rng.randrange(1, 5)):
                if rng.random() < 0.7: pac(rng.randrange(1, 16), rng.randrange(32))
                txt(rng.choice(WORDS) + " " + rng.choice(WORDS))
                for _ in range(rng.randrange(1, 4)): ctl(0x2D)
                if rng.random() < 0.2: ctl(rng.choice([0x21, 0x24, 0x2C, 0x2E]))
        elif mode == "pop":
            ctl(0x20)
            if rng.random() < 0.5: ctl(0x2E)
            for _ in range(rng.randrange(1, 4)):
                pac(rng.randrange(1, 16), rng.randrange(32)); txt(rng.choice(WORDS) * rng.randrange(1, 8))
                if rng.random() < 0.3: out.append((f, T.par(0x17 | (ch << 3)), T.par(0x21 + rng.randrange(3))))
            ctl(0x2F)
        elif mode == "paint":
            ctl(0x29); pac(rng.randrange(1, 16), rng.randrange(32)); txt(rng.choice(WORDS) * rng.randrange(1, 10))
            for _ in range(rng.randrange(0, 3)): ctl(rng.choice([0x21, 0x24, 0x2D]))
        else:
            ctl(rng.choice([0x2A, 0x2B])); txt(rng.choice(WORDS) * rng.randrange(1, 12)); ctl(0x2D)
        if rng.random() < 0.2: ch ^= 1
        if rng.random() < 0.1: f = 3 - f
    return out


def xds_packet(rng):
    """pairs (field 2) of one XDS packet; sometimes interrupted / corrupted"""
    cls = rng.choice([1, 3, 5, 7, 9, 0xB, 0xD, 1, 1, 5])
    typ = rng.randrange(1, 0x18) if rng.random() < 0.9 else rng.randrange(0x80)
    n = rng.choice([1, 2, 3, 4, 6, 8, 10, 16, 31, 32, 33, 34, 40]) if rng.random() < 0.3 else rng.randrange(1, 33)
    pay = [rng.randrange(0x20, 0x80) for _ in range(n)]
    if rng.random() < 0.3:
        pay = [rng.randrange(0x40, 0x80) for _ in range(n)]
    b = [cls, typ] + pay
    if len(b) % 2: b.append(0)
    b.append(0x0F)
    ck = (-sum(b)) & 0x7F
    if rng.random() < 0.1: ck ^= 1 << rng.randrange(7)
    b.append(ck)
    pairs = [(2, T.par(b[i]), T.par(b[i + 1])) for i in range(0, len(b), 2)]
    if rng.random() < 0.2 and len(pairs) > 2:   # interrupt with caption and resume with continue code
        i = rng.randrange(1, len(pairs) - 1)
        pairs = pairs[:i] + [(2, T.par(0x14), T.par(0x2C))] + [(2, T.par(cls + 1), T.par(typ))] + pairs[i:]
    return pairs


def itv_text(rng):
    """ITV / WebTV link sent in text mode T2 (field 1, channel 2 text): TR, text, CR"""
    url = rng.choice(["<http://zapping.sf.net>", "<http://a.b/c?d=%d>" % rng.randrange(1000), "<lid://x>", "<", "<>", "<http://" + "a" * rng.randrange(300) + ">"])
    attrs = "".join(rng.choice(["[n:name]", "[t:p]", "[e:%d]" % rng.randrange(99999999), "[s:script]", "[v:1]", "[]", "[x", "[e:20261231T235959]"]) for _ in range(rng.randrange(4)))
    s = url + attrs
    if rng.random() < 0.7:
        ck = 0
        bs = s.encode("latin1")
        bs2 = bs + (b"\0" if len(bs) % 2 else b"")
        for i in range(0, len(bs2), 2):
            ck += bs2[i] * 256 + bs2[i + 1]
        ck = (~((ck & 0xFFFF) + (ck >> 16))) & 0xFFFF
        s += "[%04X]" % ck
    pairs = [(1, T.par(0x15), T.par(0x2A)), (1, T.par(0x15), T.par(0x2A))]   # text restart, channel T2? (0x15: channel 2 of field 1)
    bs = [ord(c) & 0x7F for c in s]
    if len(bs) % 2: bs.append(0)
    pairs += [(1, T.par(bs[i]), T.par(bs[i + 1])) for i in range(0, len(bs), 2)]
    pairs += [(1, T.par(0x15), T.par(0x2D))] * 2
    return pairs


# ------------------------------------------------------------------------------------------------
def frames_to_ops(rng, lines, t0=0, dt=40000, per_frame=(1, 8), jitter=True):
    """lines: list of (service id, line number, payload bytes) -> op lines with `dec` after each frame"""
    ops = []
    t = t0
    i = 0
    while i < len(lines):
        n = rng.randrange(per_frame[0], per_frame[1] + 1)
        for sid, ln, b in lines[i:i + n]:
            ops.append("l %x %d %s" % (sid, ln, T.hx(b)))
        ops.append("dec %d" % t)
        i += n
        k = rng.random() if jitter else 1.0
        if k < 0.02: t += rng.choice([-dt * 5, dt * 30, 10 ** 9, -t])     # time jumps (dropped frames, backward)
        elif k < 0.04: t += 0
        else: t += dt
    return ops, t


def query_ops(rng, net, heavy=True):
    """fetch + everything one can do with a fetched page"""
    ops = []
    pg = net.any_pgno()
    sub = rng.choice([0x3F7F, 0x3F7F, 0, 1, 2, rng.randrange(0x4000)])
    ops.append("fetch %x %x %d %d %d" % (pg, sub, rng.randrange(4), rng.choice([25, 25, 24, 1, 2, 10, 0]), rng.randrange(2)))
    for _ in range(rng.randrange(0, 4 if heavy else 2)):
        k = rng.randrange(10)
        if k == 0: ops.append("resolve")
        elif k == 1: ops.append("print %d %d" % (rng.randrange(2), rng.choice([0, 1, 40, 1000, 1055, 1056, 4000])))
        elif k == 2: ops.append("export %s %d" % (rng.choice(["text", "html", "ppm", "png", "xpm", "vtx", "string", "text"]), rng.choice([-1, -1, 0, 1, 100, 5000])))
        elif k == 3: ops.append("render %d %d %d" % (rng.choice([32, 32, 6, 1, 40]), rng.randrange(2), rng.randrange(2)))
        elif k == 4:
            c, r_ = rng.randrange(40), rng.randrange(25)
            ops.append("region 32 %d %d %d %d" % (c, r_, rng.randrange(1, 41 - c), rng.randrange(1, 26 - r_)))
        elif k == 5: ops.append("classify %x" % net.any_pgno())
        elif k == 6: ops.append("title %x %x" % (net.any_pgno(), rng.choice([0, 0x3F7F, 1])))
        elif k == 7: ops.append("cached %x %x" % (net.any_pgno(), rng.choice([0, 0x3F7F, 1])))
        elif k == 8: ops.append("hisub %x" % net.any_pgno())
        else: ops.append("fetchcc %d" % rng.randrange(0, 10))
    return ops


def search_ops(rng, net):
    pat = rng.choice(["hello", "NEWS", "a", "x.z", "[0-9]+", "zvbi|sport", "nomatchxyzzy", "W.*r", "\\d\\d:", "(", "a{2}", "",
                      "|a", "(|)", "()a", "(*)", "[a", "[^", "\\p31", "\\p1,2", "[\\p33]", "a|", "((a)", "a)", "\\", "[a-", "^$", "$^",
                      "a**", "+", "?", "".join(rng.choice("ab|()[]*+?.\\^$-p1,") for _ in range(rng.randrange(1, 9)))])
    ucs = "".join("%04x" % ord(c) for c in pat) or "-"
    ops = ["search %x %x %d %d %s" % (net.any_pgno() if rng.random() < 0.8 else 0x100, rng.choice([0x3F7F, 0, 1]),
                                      rng.randrange(2), rng.randrange(2), ucs)]
    for _ in range(rng.randrange(1, 6)):
        ops.append("next %d" % rng.choice([1, 1, -1]))
    if rng.random() < 0.5: ops.append("endsearch")
    return ops


# ------------------------------------------------------------------------------------------------
# Structured Level 2.5 / 3.5 networks (MOT, X/27/4, POP / GPOP with pointer tables and object definitions, DRCS with
# X/28/3, X/28 + M/29) and TOP networks (BTT, AIT, MPT, MPT-EX).  Mostly valid, with the damage a real broadcast
# shows: unused / out-of-range / misdirected pointers, missing packets, pages first seen before their function is
# known (cached at the plain size and converted at fetch time), retransmissions.  Layouts follow what libzvbi's
# parsers read (packet.c parse_mot / parse_pop / parse_27 / parse_28_29 / parse_btt / parse_ait / parse_mpt[_ex]).
TERM = (0x3F, 0x1F, 0x7F)

# cases per corner of the cell address machine of teletext.c enhance() (what the generator placed on a page that is then
# fetched at Level 2.5 / 3.5); filled by enh_case(), reported by checks/C01.py as coverage.cell_corner_reach
CELL_REACH = {}
FONT_CODES = [0x00, 0x01, 0x07, 0x08, 0x10, 0x20, 0x24, 0x25, 0x26, 0x27, 0x28, 0x35, 0x36, 0x37, 0x38, 0x40, 0x44, 0x47, 0x48,
              0x55, 0x56, 0x57, 0x58, 0x7F]          # G0 sets, the holes of vbi_font_descriptors[88], 87 / 88, the largest byte


def cell_corners(r, s1_codes, tags, in_object=False):
    """triplets that drive the address machine of enhance() / enhance_flush() to one of its corners; `tags` collects which"""
    def row_addr(row): return 40 + (row % 24)            # address 40 = row 24
    k = r.choice(["last_cell", "last_cell", "dsize_last_row", "dsize_last_col", "dwidth_col39", "row0", "full_row_edge",
                  "color_col39", "drcs_subcodes", "drcs_subcodes", "fonts", "font_style", "backward", "origin_edge", "box_term"]
                 + (["origin_cells"] * 5 if in_object else []))
    tags.add(("obj_" if in_object else "") + k)
    out = []
    if k == "origin_cells":                               # an object writing at its own origin (row 0 of the object, columns 0 ... 9)
        out += [(0, 0x09, 0x4F), (r.choice([1, 5, 9]), 0x09, 0x42), (r.choice([9, 10, 39]), r.choice([0x09, 0x0C, 0x00]), 0x43)]
        if r.random() < 0.5: out.append((41, 0x04, r.choice([0, 9])))       # and in its row 1
    elif k == "last_cell":                                  # row 24 / 23, column 39: the last cells of body and page
        row = r.choice([24, 24, 23])
        out += [(row_addr(row), 0x04, 39), (39, r.choice([0x09, 0x0F, 0x10, 0x1F, 0x02]), r.randrange(0x20, 0x80))]
        if r.random() < 0.5: out += [(row_addr(row), 0x04, 38), (38, 0x09, 0x41), (39, 0x09, 0x42)]
    elif k == "dsize_last_row":                           # double height / size in rows 23, 24: the row below is the last / none
        row = r.choice([24, 23, 22])
        col = r.choice([0, 20, 37, 38, 39])
        out += [(row_addr(row), 0x04, col), (col, 0x0C, r.choice([0x41, 0x01, 0x40])), (col, 0x09, 0x41)]
        if col < 39: out.append((col + 1, 0x09, 0x42))
    elif k == "dsize_last_col":                           # double width / size starting in columns 38, 39
        row = r.choice([1, 10, 22, 23, 24])
        col = r.choice([39, 39, 38])
        out += [(row_addr(row), 0x04, col), (col, 0x0C, r.choice([0x41, 0x40])), (col, 0x09, 0x57)]
    elif k == "dwidth_col39":
        out += [(row_addr(r.choice([1, 12, 24])), 0x04, 0), (0, 0x0C, 0x40)] + [(c, 0x09, 0x41 + c % 26) for c in (0, 10, 37, 38, 39)]
    elif k == "row0":                                     # address display row 0 (mode 0x07 needs address 0x3F), header cells 0..8 and 39
        out += [(0x3F, 0x07, r.choice([0, 0x03, 0x60 | 5])), (r.choice([0, 7, 8, 9]), 0x09, 0x41), (39, 0x09, 0x5A)]
        if r.random() < 0.3: out.append((r.randrange(40, 63), 0x07, 0))      # reserved: no position
    elif k == "full_row_edge":                            # full row colour in the last rows: flush of a whole row
        row = r.choice([24, 23, 1])
        out += [(row_addr(row), 0x01, r.choice([0, 0x60]) | r.randrange(32)), (0, 0x00, r.randrange(32)), (39, 0x03, r.randrange(32)),
                (39, 0x09, 0x41)]
    elif k == "color_col39":                              # colours changing at column 39 (for an adaptive object: its last cell)
        row = r.choice([24, 2, 23])
        out += [(row_addr(row), 0x04, 38), (38, 0x00, r.randrange(32)), (39, 0x03, r.randrange(32)), (39, 0x00, r.randrange(32)),
                (39, 0x0C, r.randrange(128)), (39, 0x07, r.randrange(4)), (39, 0x09, 0x41)]
    elif k == "drcs_subcodes":                            # DRCS mode for both tables with every sub-code, glyphs 0 / 23 / 47 / 48 / 63
        normal = r.randrange(2)
        s1 = r.choice(s1_codes + [r.randrange(16), 15, 0])
        out += [(row_addr(r.randrange(1, 25)), 0x18, (normal << 6) | s1), (row_addr(r.choice([24, 1, 23])), 0x04, r.choice([0, 38, 39]))]
        for g in r.sample([0, 1, 23, 24, 46, 47, 48, 63], 3):
            out.append((r.choice([38, 39, r.randrange(40)]), 0x0D, (normal << 6) | g))
    elif k == "fonts":                                    # modified G0 / G2 designation: valid sets, holes, 87, 88, 127
        out += [(row_addr(r.choice([24, 5])), 0x04, 0)]
        for c, code in enumerate(r.sample(FONT_CODES, 4)):
            out += [(c * 9, 0x08, code), (c * 9 + 1, 0x09, 0x23), (c * 9 + 2, 0x0F, 0x24)]
        out.append((39, 0x08, r.choice([0x57, 0x58, 0x7F])))
    elif k == "font_style":                               # Level 3.5 font style over up to 16 rows from the last rows / columns
        row = r.choice([24, 23, 10, 1])
        out += [(row_addr(row), 0x04, r.choice([0, 39])), (r.choice([0, 38, 39]), 0x0E, (r.choice([15, 15, 1, 0]) << 4) | r.randrange(8))]
    elif k == "backward":                                 # column addresses going backwards / the same row addressed again
        row = r.choice([24, 12])
        out += [(row_addr(row), 0x04, 39), (39, 0x09, 0x41), (10, 0x09, 0x42), (row_addr(row), 0x04, 5), (39, 0x09, 0x43),
                (row_addr(row - 1), 0x04, 39), (39, 0x09, 0x44)]
    elif k == "origin_edge":                              # origin modifier alone (it applies to the next invocation)
        out += [(row_addr(r.choice([24, 1, 2])), 0x04, r.choice([39, 0, 1])), (40 + r.choice([23, 22, 0]), 0x10, r.choice([71, 70, 39, 40, 0, 72]))]
    else:                                                 # box_term: attributes flushed over Level 1 start / end box pairs
        out += [(row_addr(r.choice([24, 3])), 0x04, 0), (0, 0x0C, 0x02), (0, 0x00, 3), (39, 0x09, 0x41)]
    return out


def x26_sequence_damage(r, ds):
    """designation sequence with one packet out of order and more packets after it"""
    ds = list(ds) or [0]
    kind = r.choice(["repeat", "repeat", "descend", "seventeenth", "skip", "restart"])
    if kind == "repeat":
        i = r.randrange(len(ds))
        ds = ds[:i + 1] + [ds[i]] + [d for d in range(ds[i] + 1, min(16, ds[i] + 1 + r.randrange(1, 4)))]
    elif kind == "descend":
        hi = r.randrange(1, 16)
        ds = list(range(min(len(ds), hi))) + [hi, r.randrange(hi), min(15, hi + 1)] + [r.randrange(16) for _ in range(r.randrange(0, 3))]
    elif kind == "seventeenth":
        ds = list(range(16)) + [r.choice([15, 0, 7])] + ([r.randrange(16)] if r.random() < 0.5 else [])
    elif kind == "skip":
        ds = ds + [ds[-1] + 2, ds[-1] + 3] if ds[-1] + 3 <= 15 else ds + [0, 1]
    else:
        ds = ds + [0, 1, 2][:r.randrange(1, 4)]
    return [d & 15 for d in ds]


class L25:
    """one magazine with Level 2.5 / 3.5 structure"""
    HEX_SYS = [0x1A, 0x2B, 0x3C, 0x4D, 0x5E, 0x6F, 0x7A, 0x0A, 0x7B, 0x70 + 0xC, 0xA0, 0xB5, 0xEE, 0xEF, 0xE0, 0x9A]

    def __init__(self, rng):
        r = self.rng = rng
        self.m = r.randrange(1, 9)
        self.serial = r.random() < 0.15
        bcd = [0x00, 0x01, 0x09, 0x10, 0x23, 0x45, 0x50, 0x77, 0x98, 0x99]
        self.lops = r.sample(bcd, r.randrange(1, 4))
        sysp = r.sample(self.HEX_SYS, 6)
        lowtens = [p for p in self.HEX_SYS if (p >> 4) <= 7]
        # the GPOP / first POP are reachable through X/27/4 (tens <= 7) most of the time
        self.gpop = r.choice(lowtens) if r.random() < 0.8 else sysp[0]
        self.pops = []
        for i in range(r.randrange(1, 3)):
            p = r.choice(lowtens) if r.random() < 0.7 else sysp[1 + i]
            if p != self.gpop and p not in self.pops:
                self.pops.append(p)
        if not self.pops:
            self.pops = [next(p for p in self.HEX_SYS if p != self.gpop)]
        used = set([self.gpop] + self.pops)
        rest = [p for p in self.HEX_SYS if p not in used]
        self.gdrcs, self.drcs = r.sample(rest, 2)
        self.s1 = {p: (0 if r.random() < 0.6 else r.randrange(16)) for p in [self.gpop, self.gdrcs, self.drcs] + self.pops}
        self.via = {p: r.choice(["x27", "x27", "mot", "mot", "both", "none"]) for p in self.lops}
        self.pop_of = {p: r.randrange(len(self.pops)) for p in self.lops}
        self.announce = r.random() < 0.35            # MIP tells the page types before the pages arrive
        self.pop_with_x26 = r.random() < 0.5
        self.defs = {}
        self.corners = set()                         # corners of the cell address machine this network drives (see CELL_REACH)
        # everything the cell-corner additions draw comes from a generator of their own, seeded by the network's parameters:
        # the main stream - and with it every case the earlier rounds validated at the standard seeds - stays what it was
        self.r2 = random.Random(repr((self.m, self.serial, self.lops, self.gpop, self.pops, self.gdrcs, self.drcs, sorted(self.s1.items()))))
        self.make_objects()

    def pgno(self, page):
        return self.m * 256 + page

    # --- objects ---------------------------------------------------------------------------------
    def make_objects(self):
        """per POP page: objects (type, ptr_packet 0..3, grp 0..3, half, pointer, body) and the pointer table"""
        r = self.rng
        for page in [self.gpop] + self.pops:
            n = r.randrange(1, 7)
            ptr_hi = r.random() < 0.2                # use pointer packets 3/4 too
            objs, slots = [], set()
            pos = 26 if ptr_hi else r.choice([0, 0, 13, 26])
            for _ in range(n):
                typ = r.randrange(1, 4)
                slot = (r.randrange(4 if ptr_hi else 2), r.randrange(4), r.randrange(2), typ)
                if slot in slots: continue
                slots.add(slot)
                body = self.obj_body(typ, page)
                k = r.random()
                if k < 0.12: pos = max(pos, 507 - 1 - min(len(body), r.randrange(1, 6)))   # at the very end of the table
                elif k < 0.3: pos += r.randrange(0, 40)
                if pos > 506: break
                objs.append({"type": typ, "pp": slot[0], "grp": slot[1], "half": slot[2], "ptr": pos, "body": body})
                pos += 1 + len(body) + (1 if r.random() < 0.7 else 0)
            self.defs[page] = {"objs": objs, "ptr_hi": ptr_hi}

    def obj_body(self, typ, page, depth=0):
        r = self.rng
        out = []
        if typ and self.r2.random() < 0.35:
            # objects that go to the corners themselves: passive objects with full-row attributes, adaptive objects changing
            # colours at column 39, double size in the last row / column relative to wherever they get invoked
            tags = set()
            out += cell_corners(self.r2, list(self.s1.values()), tags, in_object=True)
            self.corners |= {t + "_type%d" % typ for t in tags}
        for _ in range(r.randrange(0, 12)):
            k = r.random()
            if k < 0.2:
                out.append((40 + r.choice([0, 1, 2, 5, 10, 22, 23, r.randrange(24)]), 0x04, r.choice([0, 1, 20, 38, 39, r.randrange(40)])))
            elif k < 0.3:
                out.append((40 + r.randrange(24), r.choice([0x01, 0x00, 0x07, 0x10, 0x18]), r.randrange(128)))
            elif k < 0.42 and depth < 3:
                # nested invocation: mostly rising priority, sometimes same / lower (refused), cyclic through the table
                nt = r.choice([typ + 1, typ + 1, 3, typ, 1, r.randrange(1, 4)])
                nt = min(3, max(1, nt))
                src = r.choice([48, 56, 56, 40])
                out.append((src + r.randrange(4) + r.choice([0, 0, 4]), 0x10 + nt, self.s1.get(page, 0) | (r.randrange(2) << 4) | (r.randrange(4) << 5)))
            elif k < 0.5:
                out.append((r.choice([0, 1, 38, 39, r.randrange(40)]), 0x0D, (r.randrange(2) << 6) | r.choice([0, 1, 23, 47, 48, r.randrange(64)])))
            else:
                out.append((r.choice([0, 38, 39, r.randrange(40)]), r.choice(MODES_COL), r.randrange(128)))
        return out

    def invocation(self, page_of_lop, kind=None):
        """X/26 triplets: position, optional origin modifier, object invocation that mostly matches a defined object"""
        r = self.rng
        out = []
        row = r.choice([1, 2, 10, 22, 23, 24, r.randrange(1, 25)])
        col = r.choice([0, 1, 20, 38, 39, r.randrange(40)])
        out.append((40 + (row % 24), 0x04, col))
        if r.random() < 0.3:
            out.append((r.choice([0, 10, 39, r.randrange(40)]), r.choice([0x09, 0x00, 0x03, 0x0C]), r.randrange(0x20, 0x80)))
        orow = ocol = 0
        if r.random() < 0.3:
            orow, ocol = r.choice([0, 1, 12, 23, r.randrange(24)]), r.choice([0, 1, 39, 40, 71, 72, r.randrange(128)])
            out.append((40 + orow, 0x10, ocol))
        r2 = self.r2
        if r2.random() < 0.3:
            out = [t for t in out if t[1] != 0x10]
            if r2.random() < 0.4:
                # the first row / column outside the page with the rest of the position inside: inv_row 25 (or 24) at columns 30 ... 39
                row, col = r2.choice([24, 2, 23]), r2.choice([0, 30, 39])
                orow, ocol = (25 - row if r2.random() < 0.7 else 24 - row), r2.choice([30, 35, 39]) - min(col, 30)
                out[0] = (40 + (row % 24), 0x04, col)
                self.corners.add("invoke_row25_right" if row + orow == 25 else "invoke_row24_right")
            else:
                orow, ocol = r2.choice([0, 23, 24 - row, 25 - row]) % 24, r2.choice([0, 39, 71, 39 - col, 40 - col]) % 72
            out.append((40 + orow, 0x10, ocol))
        if ocol >= 72: ocol = orow = 0                                       # invalid: the modifier is ignored
        if row + orow >= 25 or col + ocol >= 40: self.corners.add("invoke_outside_page")
        if row + orow == 24: self.corners.add("invoke_at_row24")
        if col + ocol == 39: self.corners.add("invoke_at_col39")
        if row + orow == 25 or col + ocol == 40: self.corners.add("invoke_first_outside")
        kind = kind or r.choice(["gpop", "gpop", "pop", "pop", "local"])
        if kind == "local":
            adr, typ, dat = 40 + r.randrange(8), r.randrange(1, 4), (r.randrange(8) << 4) | r.choice([0, 5, 12, 13, 15])
            if self.r2.random() < 0.3: adr, dat = 40 + 8 + 1, self.r2.choice([0x00, 0x0C, 0x10, 0x7C])   # designation 16 ...: enh[208] and behind
            out.append((adr, 0x10 + typ, dat))
            if (adr & 0x18) == 8 and ((dat >> 4) + ((adr & 1) << 4)) * 13 + (dat & 15) >= 208 and (dat & 15) <= 12:
                self.corners.add("local_object_at_end_of_enh")
            return out
        page = self.gpop if kind == "gpop" else self.pops[self.pop_of[page_of_lop]]
        objs = self.defs[page]["objs"]
        base = 56 if kind == "gpop" else 48
        if objs and r.random() < 0.85:
            o = r.choice(objs)
            typ, pp, grp, half = o["type"], o["pp"], o["grp"], o["half"]
            if r.random() < 0.1: typ = r.randrange(1, 4)             # wrong type: points at another object's slot
        else:
            typ, pp, grp, half = r.randrange(1, 4), r.randrange(4), r.randrange(4), r.randrange(2)
        s1 = self.s1[page] if r.random() < 0.9 else r.randrange(16)
        out.append((base + pp + r.choice([0, 0, 4]), 0x10 + typ, s1 | (half << 4) | (grp << 5)))
        return out

    # --- pages -----------------------------------------------------------------------------------
    def hdr(self, page, subcode=0, flags=None, text=None):
        r = self.rng
        f = (T.C4_ERASE if r.random() < 0.3 else 0) if flags is None else flags
        if self.serial: f |= T.C11_SERIAL
        return T.header(self.m, page, subcode, f, r.randrange(8) if r.random() < 0.3 else 0,
                        text or "%1d%02X ZVBI L25 \x03%02d:%02d:%02d" % (self.m, page, r.randrange(24), r.randrange(60), r.randrange(60)))

    def lop(self, page, flof=None):
        r = self.rng
        m = self.m
        fl = 0
        for bit, p in ((T.C4_ERASE, .3), (T.C5_NEWSFLASH, .04), (T.C6_SUBTITLE, .04), (T.C7_SUPPRESS, .04), (T.C8_UPDATE, .2), (T.C10_INHIBIT, .03)):
            if r.random() < p: fl |= bit
        pk = [self.hdr(page, r.choice([0, 0, 0, 1, 2]), fl)]
        for y in range(1, 25):
            if r.random() < 0.85: pk.append(T.addr(m, y) + rtext(r))
        if (r.random() < 0.25) if flof is None else flof:
            pk.append(T.x27_flof(m, [(self.pgno(r.choice(self.lops)), 0x3F7F) for _ in range(6)], r.choice([0xF, 0x7, 0x8, 0])))
        via = self.via[page]
        if via in ("x27", "both"):
            pop = self.pops[self.pop_of[page]]
            links = [(self.pgno(self.gpop), 0), (self.pgno(pop), 1), (self.pgno(self.gdrcs), 2), (self.pgno(self.drcs), 3), None, None]
            if r.random() < 0.25:                    # libzvbi takes the normal DRCS page from link 25 (the POP slot)
                links[1] = (self.pgno(self.drcs), 1)
            if r.random() < 0.15: links[r.randrange(4)] = None
            if r.random() < 0.1: links[r.randrange(4)] = (self.pgno(r.choice(self.lops + [self.gpop, self.drcs])), r.randrange(4))
            links = [l if (l is None or ((l[0] >> 4) & 15) <= 7) else None for l in links]
            pk.append(x27_4(m, links))
        # X/26: invocations, DRCS characters, ordinary enhancements, terminator
        trips = []
        if r.random() < 0.9:
            for _ in range(r.randrange(1, 5)):
                if self.r2.random() < 0.35:
                    tags = set()
                    trips += cell_corners(self.r2, list(self.s1.values()), tags)
                    self.corners |= tags
                k = r.random()
                if k < 0.6: trips += self.invocation(page)
                elif k < 0.85:
                    if r.random() < 0.5: trips.append((40 + r.randrange(24), 0x18, (r.randrange(2) << 6) | r.choice([0, self.s1[self.drcs], self.s1[self.gdrcs], r.randrange(16)])))
                    trips.append((40 + r.choice([1, 24 % 24, 23, r.randrange(24)]), 0x04, r.choice([0, 39, r.randrange(40)])))
                    for _ in range(r.randrange(1, 4)):
                        trips.append((r.choice([0, 1, 38, 39, r.randrange(40)]), 0x0D, (r.randrange(2) << 6) | r.choice([0, 1, 23, 46, 47, 48, 63, r.randrange(48)])))
                else:
                    trips += self.obj_body(0, page, depth=3)[:6]
            k = r.random()
            if k < 0.7: trips.append(TERM)
            elif k < 0.8: trips.append((40, 0x15 + r.randrange(3), 0))   # object definition inside the page: terminates
        if trips and r.random() < 0.9:
            if r.random() < 0.1: trips = trips[:r.randrange(len(trips) + 1)]
            n = (len(trips) + 12) // 13
            ds = list(range(min(n, 16)))
            if r.random() < 0.05 and len(ds) > 1: ds.pop(r.randrange(len(ds)))     # a lost X/26 packet
            k = r.random()
            if k < 0.2:
                # a packet the sequence test of the decoder must reject (repeated designation, an earlier designation after
                # a later one, a 17th packet), FOLLOWED by further X/26 packets of the same page before the next header
                ds = x26_sequence_damage(r, ds)
            for d in ds:
                pk.append(T.x26(m, d, trips[(d % 16) * 13:((d % 16) + 1) * 13]))
        k = r.random()
        if k < 0.3: pk.append(T.x28(m, 28, r.choice([0, 0, 4, 1]), Net.x28_triplets(self, 0, 0)))
        if k < 0.1: pk.append(T.x28(m, 28, r.choice([4, 1]), Net.x28_triplets(self, 0, 0)))
        return pk

    def pop_page(self, page, kind, with_x26=None, damage=True):
        """POP / GPOP page: pointer packets 1,2 (3,4), object definitions in packets 3..25 and X/26/0..15"""
        r = self.rng
        m = self.m
        d = self.defs[page]
        ptr_hi = d["ptr_hi"]
        with_x26 = self.pop_with_x26 if with_x26 is None else with_x26
        area = [None] * 507
        table = {}
        for o in d["objs"]:
            p = o["ptr"]
            i = o["grp"] * 3 + o["type"]
            val = p
            if damage:
                k = r.random()
                if k < 0.10: val = 511                                        # unused (EN 300 706 10.5.1.2)
                elif k < 0.17: val = r.choice([507, 508, 508, 509, 510])      # out of range
                elif k < 0.22: val = min(506, p + 1)                          # points into the body, not at a definition
                elif k < 0.25: val = r.randrange(507)
            table[(o["pp"], i, o["half"])] = val
            addr = 40 + o["pp"] + r.choice([0, 4, 8, 16])
            dat = self.s1[page] | (o["half"] << 4) | (o["grp"] << 5)
            seq = [(addr, 0x14 + o["type"], dat)] + o["body"]
            if r.random() < 0.7: seq.append(TERM)
            for j, t in enumerate(seq):
                if p + j <= 506: area[p + j] = t
        pk = [self.hdr(page, self.s1[page] | (r.choice([0, 0, 0x10, 0x100]) if r.random() < 0.2 else 0))]
        if r.random() < 0.2:     # X/28/0 naming the function: libzvbi ignores everything but function 0
            pk.append(T.x28(m, 28, 0, Net.x28_triplets(self, 2 if kind == "pop" else 1, 3)))
        def ptr_packet(k):
            t = [r.randrange(1 << 18)]
            for i in range(1, 13):
                lo = table.get((k, i, 0), 511 if r.random() < 0.8 else r.randrange(512))
                hi = table.get((k, i, 1), 511 if r.random() < 0.8 else r.randrange(512))
                t.append(lo | (hi << 9))
            b = [T.ham8(1 if r.random() < 0.95 else r.choice([0, 3, 5]))]
            for v in t: b += T.ham24(v)
            return T.addr(m, k + 1) + b
        def trip_packet(y, desig, lo):
            b = [T.ham8(desig)]
            for j in range(13):
                t = area[lo + j] if lo + j <= 506 else None
                if t is None: t = TERM if r.random() < 0.9 else (r.randrange(64), r.randrange(32), r.randrange(128))
                b += T.triplet(*t)
            return T.addr(m, y) + b
        for k in range(4 if ptr_hi else 2):
            if r.random() < 0.95: pk.append(ptr_packet(k))
        last = max([o["ptr"] + len(o["body"]) + 2 for o in d["objs"]] + [0])
        for y in range(3, 26):
            lo = (y - 3) * 13
            if ptr_hi and y <= 4: continue
            if lo > last and r.random() < 0.8: continue
            if r.random() < 0.95: pk.append(trip_packet(y, 0, lo))
        if with_x26 or last >= 23 * 13:
            for dsg in range(16):
                lo = (23 + dsg) * 13
                if lo > last and not (dsg == 0 and with_x26): continue
                pk.append(trip_packet(26, dsg, lo))
        return pk

    def drcs_page(self, page, kind, x28=None):
        r = self.rng
        m = self.m
        pk = [self.hdr(page, self.s1[page])]
        if (r.random() < 0.5) if x28 is None else x28:
            modes = [r.choice([0, 0, 1, 2, 3, 14, 15, r.randrange(16)]) for _ in range(48)]
            if r.random() < 0.3: modes = [r.choice([0, 1, 2, 3])] * 48
            if r.random() < 0.3: modes[47] = r.choice([1, 2, 3]); modes[46] = r.choice([0, 1, 2]); modes[45] = r.choice([0, 2])
            fields = [(4 if kind == "gdrcs" else 5, 4), (r.randrange(8), 3), (r.randrange(1 << 11), 11)] + [(mo, 4) for mo in modes]
            pk.append(T.x28(m, 28, 3, pack_bits(fields)))
        for y in range(1, 25):
            if r.random() < 0.9:
                pk.append(T.addr(m, y) + [T.par(r.randrange(0x40, 0x80)) if r.random() < 0.97 else r.randrange(256) for _ in range(40)])
        return pk

    def mot(self, damage=True):
        r = self.rng
        m = self.m
        vals = {}
        for p in self.lops:
            if self.via[p] in ("mot", "both"):
                vals[p] = (1 + self.pop_of[p], r.choice([1, 1, 2, 0]))
            elif r.random() < 0.3:
                vals[p] = (r.randrange(8), r.randrange(8))
        if damage and r.random() < 0.3:
            for _ in range(r.randrange(1, 10)): vals[r.randrange(256)] = (r.randrange(16), r.randrange(16))
        pk = [self.hdr(0xFE, 0)]
        pk += lut_packets(m, vals, r, 0.95)
        def pop_entry(page, lvl):
            if page is None:
                return [T.ham8(v) for v in (m & 7, 0xF, 0xF, 0, 1, 0, 0, 0, 0, 0)]
            objs = self.defs.get(page, {"objs": []})["objs"]
            ty, ad = [0, 0], [0, 0]
            for k in range(2):
                if r.random() < 0.6:
                    if objs and r.random() < 0.8:
                        o = r.choice(objs)
                        ty[k] = o["type"]
                        ad[k] = self.s1[page] | (o["half"] << 4) | (o["grp"] << 5) | ((o["pp"] & 1) << 7)
                    else:
                        ty[k] = r.randrange(4); ad[k] = r.randrange(256)
            return [T.ham8(v) for v in (m & 7, page >> 4, page & 15, r.randrange(16), r.choice([1, 0, 2, 4, 6, 8]),
                                        ty[0] | (ty[1] << 2), ad[0] & 15, ad[0] >> 4, ad[1] & 15, ad[1] >> 4)]
        ent = [self.gpop] + self.pops + [None] * 8
        if damage and r.random() < 0.2: ent[r.randrange(4)] = r.choice(self.lops + [self.drcs, None])
        for y, lo in ((19, 0), (20, 4)):
            if r.random() < 0.95:
                b = []
                for i in range(4): b += pop_entry(ent[lo + i], 0)
                pk.append(T.addr(m, y) + b)
        if r.random() < 0.4:      # Level 3.5 table: other pages or dead links
            ent35 = [r.choice([self.gpop, None] + self.pops)] + [r.choice(self.pops + [None]) for _ in range(7)]
            for y, lo in ((22, 0), (23, 4)):
                b = []
                for i in range(4): b += pop_entry(ent35[lo + i], 1)
                pk.append(T.addr(m, y) + b)
        def drcs_entries(pages):
            b = []
            for p in pages:
                b += [T.ham8(m & 7), T.ham8(0xF if p is None else p >> 4), T.ham8(0xF if p is None else p & 15), T.ham8(r.randrange(16))]
            return b
        dl = [self.gdrcs, self.drcs, self.drcs if r.random() < 0.5 else None] + [None] * 5
        if damage and r.random() < 0.2: dl[r.randrange(3)] = r.choice(self.pops + self.lops)
        if r.random() < 0.95: pk.append(T.addr(m, 21) + drcs_entries(dl) + [T.ham8(0)] * 8)
        if r.random() < 0.3: pk.append(T.addr(m, 24) + drcs_entries([r.choice([self.gdrcs, None]), r.choice([self.drcs, None])] + [None] * 6) + [T.ham8(0)] * 8)
        return [p[:42] for p in pk]

    def mip(self):
        r = self.rng
        vals = {}
        def put(page, code): vals[page] = (code & 15, code >> 4)
        for p in self.lops: put(p, r.choice([0x01, 0x01, 0x02, 0x10, 0x00]))
        put(self.gpop, r.choice([0xE6, 0xEC, 0xEF])); put(self.gdrcs, r.choice([0xE5, 0xE8, 0xEB]))
        for p in self.pops: put(p, r.choice([0xE6, 0xED]))
        put(self.drcs, r.choice([0xE5, 0xE9]))
        if r.random() < 0.3:
            for _ in range(r.randrange(1, 6)): put(r.randrange(256), r.randrange(256))
        return [self.hdr(0xFD, 0)] + lut_packets(self.m, vals, r, 0.95)

    def filler(self):
        return T.header(self.m, 0xFF, 0x3F7F, T.C11_SERIAL if self.serial else 0, 0, "filler")

    def page(self, what):
        kind, page = what
        if kind == "lop": pk = self.lop(page)
        elif kind == "gpop": pk = self.pop_page(page, "gpop")
        elif kind == "pop": pk = self.pop_page(page, "pop")
        elif kind == "bare":       # a future POP / DRCS page without X/26, function unknown: cached at the plain size
            pk = self.pop_page(page, "pop", with_x26=False) if page in self.defs else self.drcs_page(page, "drcs", x28=False)
            pk = [p for p in pk if not (T.addr(self.m, 26) == p[:2] or T.addr(self.m, 28) == p[:2])]
        elif kind == "gdrcs": pk = self.drcs_page(page, "gdrcs")
        elif kind == "drcs": pk = self.drcs_page(page, "drcs")
        elif kind == "mot": pk = self.mot()
        else: pk = self.mip()
        return pk + [self.filler()]

    def all_sys(self):
        return [("gpop", self.gpop)] + [("pop", p) for p in self.pops] + [("gdrcs", self.gdrcs), ("drcs", self.drcs)]

    def phases(self):
        """list of phases; a phase is a list of packets.  Orders: system pages before anything names them (converted
        at fetch time), announced by MIP + MOT first, or mixed; then retransmissions"""
        r = self.rng
        order = r.choice(["late", "late", "announced", "mixed"])
        ph = []
        sysp = self.all_sys()
        lops = [("lop", p) for p in self.lops]
        if order == "late" and not self.announce:
            first = [(("bare", p) if r.random() < 0.6 else (k, p)) for k, p in sysp]
            r.shuffle(first)
            ph.append(first + lops)
            if r.random() < 0.6: ph.append([("mot", 0xFE)])
        elif order == "announced" or self.announce:
            ph.append(([("mip", 0xFD)] if r.random() < 0.8 else []) + [("mot", 0xFE)] + sysp + lops)
        else:
            allp = sysp + lops + [("mot", 0xFE)]
            r.shuffle(allp)
            ph.append(allp)
        for _ in range(r.randrange(1, 4)):
            k = r.random()
            if k < 0.4: nxt = r.sample(sysp, r.randrange(1, len(sysp) + 1))          # retransmission of converted pages
            elif k < 0.7: nxt = lops + r.sample(sysp, 1)
            else: nxt = [("mot", 0xFE)] + r.sample(sysp + lops, 2)
            ph.append(nxt)
        out = []
        for p in ph:
            pk = []
            for w in p: pk += self.page(w)
            out.append(pk)
        return out

    def queries(self, heavy=True):
        r = self.rng
        ops = []
        for p in r.sample(self.lops, len(self.lops)):
            lvl = r.choice([2, 2, 3, 3, 1, 0])
            ops.append("fetch %x %x %d %d %d" % (self.pgno(p), r.choice([0x3F7F, 0x3F7F, 0]), lvl, r.choice([25, 25, 25, 24, 1]), r.randrange(2)))
            for _ in range(r.randrange(0, 3 if heavy else 2)):
                k = r.randrange(8)
                if k == 0: ops.append("resolve")
                elif k == 1: ops.append("print %d %d" % (r.randrange(2), r.choice([40, 1000, 4000])))
                elif k == 2: ops.append("export %s -1" % r.choice(["text", "html", "ppm", "png", "xpm", "vtx"]))
                elif k == 3: ops.append("render %d %d %d" % (r.choice([32, 32, 6]), r.randrange(2), r.randrange(2)))
                elif k == 4:
                    c, w = r.randrange(40), r.randrange(25)
                    ops.append("region 32 %d %d %d %d" % (c, w, r.randrange(1, 41 - c), r.randrange(1, 26 - w)))
                elif k == 5: ops.append("classify %x" % self.pgno(r.choice(self.lops + [self.gpop, self.drcs, 0xFE])))
                elif k == 6: ops.append("title %x 0" % self.pgno(r.choice(self.lops)))
                else: ops.append("cached %x %x" % (self.pgno(r.choice([self.gpop, self.drcs] + self.pops)), r.choice([0, 0x3F7F])))
        if self.corners:
            # every level 1.5 / 2.5 / 3.5 with 1 / 24 / 25 rows, and something that reads the cells, DRCS planes, colours
            p = self.r2.choice(self.lops)
            for lvl in (1, 2, 3):
                rows = self.r2.choice([1, 24, 25, 25])
                ops.append("fetch %x 3f7f %d %d %d" % (self.pgno(p), lvl, rows, self.r2.randrange(2)))
                self.corners.add("fetch_l%s_rows%d" % ({1: "15", 2: "25", 3: "35"}[lvl], rows))
                ops.append(self.r2.choice(["render 32 1 1", "export png -1", "export html -1", "print 1 4000", "resolve", "export text -1",
                                     "region 32 38 23 2 2", "region 32 39 24 1 1"]))
        if r.random() < 0.15:
            ops.append("fetch %x 3f7f %d 25 1" % (self.pgno(r.choice([self.gpop, self.drcs, 0xFE, 0xFD])), r.randrange(4)))
        return ops


class TopNet:
    """TOP network: BTT 1F0 (page types in packets 1-20, links in 21-23), AIT / MPT / MPT-EX pages, LOP pages in
    several magazines"""

    def __init__(self, rng):
        r = self.rng = rng
        cand = [0x100, 0x101, 0x109, 0x110, 0x150, 0x199, 0x200, 0x234, 0x300, 0x399, 0x400, 0x555, 0x700, 0x799, 0x800, 0x850, 0x899]
        self.lops = sorted(r.sample(cand, r.randrange(2, 7)))
        if r.random() < 0.5 and 0x100 not in self.lops: self.lops.insert(0, 0x100)
        self.hexp = r.sample([0x1AB, 0x2FA, 0x8FE, 0x10A, 0x7CC], r.randrange(0, 2))
        self.ait = r.sample([0x1F1, 0x1F2, 0x2F0, 0x8F5], r.randrange(1, 3))
        self.mpt = r.choice([0x1F3, 0x1F4])
        self.mptex = r.choice([0x1F5, 0x3F1])
        # which pages are block / group pages
        self.layout = r.choice(["std", "std", "none", "none", "high", "normal", "random", "groups"])
        self.types = {}
        allp = self.lops
        if self.layout == "std":
            for i, p in enumerate(allp): self.types[p] = 4 if i == 0 or r.random() < 0.2 else r.choice([6, 8, 8, 9, 1, 2])
            self.types.setdefault(0x100, 4)
        elif self.layout == "high":
            for p in allp: self.types[p] = 8
            self.types[max(allp)] = r.choice([4, 5, 6])
        elif self.layout == "normal":
            for p in allp: self.types[p] = r.choice([8, 9, 10, 11, 1])
        elif self.layout == "groups":
            for p in allp: self.types[p] = r.choice([6, 7, 8])
        elif self.layout == "random":
            for p in allp: self.types[p] = r.randrange(16)
        self.titles = [p for p in allp if self.types.get(p, 0) in (4, 5, 6, 7) or r.random() < 0.2]
        # how many titles each AIT page carries (46 fit): a TOP index sub-page shows 17, so more than 18 / 23 / 25 titles in
        # all make page 900 a multi-page index whose first sub-pages are "not the last"
        self.ait_fill = {a: r.choice([0, 3, 10, 17, 18, 19, 22, 23, 24, 25, 26, 30, 36, 40, 46, 46]) for a in self.ait}
        self.serial = r.random() < 0.15

    def hdr(self, pgno, subcode=0, flags=None):
        r = self.rng
        f = (T.C4_ERASE if r.random() < 0.3 else 0) if flags is None else flags
        if self.serial: f |= T.C11_SERIAL
        return T.header(pgno >> 8, pgno & 255, subcode, f, 0, "%03X TOP \x03%02d:%02d" % (pgno, r.randrange(24), r.randrange(60)))

    def filler(self, pgno):
        return T.header(pgno >> 8, 0xFF, 0x3F7F, T.C11_SERIAL if self.serial else 0, 0, "filler")

    def btt(self, with_types=None, with_links=True):
        r = self.rng
        pk = [self.hdr(0x1F0)]
        with_types = (self.layout != "none") if with_types is None else with_types
        if with_types:
            for packet in range(1, 21):
                b = []
                first = 100 + (packet - 1) * 40
                anyp = False
                for k in range(40):
                    d = first + k
                    pgno = ((d // 100) << 8) | (((d // 10) % 10) << 4) | (d % 10)
                    code = self.types.get(pgno, 0 if r.random() < 0.97 else r.randrange(16))
                    anyp = anyp or code != 0
                    b.append(T.ham8(code) if r.random() < 0.995 else r.randrange(256))
                if anyp or r.random() < 0.5: pk.append(T.addr(1, packet) + b)
        if with_links:
            links = [(a, 2) for a in self.ait] + [(self.mpt, 1), (self.mptex, 3)]
            if r.random() < 0.3: r.shuffle(links)
            if r.random() < 0.2: links.append((r.choice(self.lops), r.randrange(4)))
            links = links[:15]
            for packet in (21, 22, 23):
                b = []
                for i in range(5):
                    j = (packet - 21) * 5 + i
                    if j < len(links): b += top_link(links[j][0], r.choice([0, 0, 0x3F7F, 1]), links[j][1])
                    else: b += top_link(0xFFF if r.random() < 0.8 else r.randrange(0x1000), 0, r.randrange(16))
                if packet == 21 or r.random() < 0.6: pk.append(T.addr(1, packet) + b)
        return pk + [self.filler(0x1F0)]

    def ait_page(self, pgno):
        r = self.rng
        m = pgno >> 8
        ts = list(self.titles)
        if len(self.ait) > 1:      # split the titles over the AIT pages
            k = self.ait.index(pgno)
            ts = ts[k::len(self.ait)]
        want = self.ait_fill.get(pgno, 0)
        if len(ts) < want:           # further titles for pages all over the number range (distinct, so each one is a row)
            k = self.ait.index(pgno)
            pool = [p for p in range(0x100 + k, 0x900, len(self.ait)) if (p & 0xFF) != 0xFF and p not in ts]
            if r.random() < 0.6: pool = [p for p in pool if (p & 15) <= 9 and (p & 0xF0) <= 0x90]
            ts += sorted(r.sample(pool, want - len(ts)))
        if r.random() < 0.2: ts += [r.choice(self.lops)]      # duplicate
        if r.random() < 0.2: r.shuffle(ts)
        ts = ts[:46]
        ent = []
        for p in ts:
            title = r.choice(WORDS) + " " + r.choice(WORDS)
            ent.append(top_link(p, 0x3F7F, r.randrange(16)) + ([T.par(ord(c)) for c in title[:12]] + [T.par(0x20)] * 12)[:12])
        while len(ent) < 46 and r.random() < 0.2:
            ent.append(top_link(r.randrange(0x1000), r.randrange(0x4000), 0) + rtext(r, 12, 0.05))
        pk = [self.hdr(pgno)]
        for y in range(1, 24):
            a = ent[(y - 1) * 2] if (y - 1) * 2 < len(ent) else None
            b = ent[(y - 1) * 2 + 1] if (y - 1) * 2 + 1 < len(ent) else None
            if a is None and b is None and r.random() < 0.7: continue
            blank = top_link(0, 0, 0) + [T.par(0x20)] * 12
            pk.append(T.addr(m, y) + (a or blank) + (b or blank))
        return pk + [self.filler(pgno)]

    def mpt_page(self):
        r = self.rng
        pk = [self.hdr(self.mpt)]
        for packet in range(1, 21):
            if r.random() < 0.5:
                pk.append(T.addr(self.mpt >> 8, packet) + [T.ham8(r.choice([0, 1, 1, 2, 9, 10, 15])) if r.random() < 0.99 else r.randrange(256) for _ in range(40)])
        return pk + [self.filler(self.mpt)]

    def mptex_page(self):
        r = self.rng
        pk = [self.hdr(self.mptex)]
        for packet in range(1, r.randrange(2, 6)):
            b = []
            for _ in range(5):
                b += top_link(r.choice(self.lops + [0, 0x8FF, 0x900]), r.choice([0, 1, 0x12, 0x79, 0x3F7F]), r.randrange(16))
            pk.append(T.addr(self.mptex >> 8, packet) + b)
        return pk + [self.filler(self.mptex)]

    def lop(self, pgno):
        r = self.rng
        m = pgno >> 8
        fl = 0
        for bit, p in ((T.C4_ERASE, .3), (T.C5_NEWSFLASH, .03), (T.C6_SUBTITLE, .03), (T.C8_UPDATE, .2)):
            if r.random() < p: fl |= bit
        pk = [self.hdr(pgno, r.choice([0, 0, 1]), fl)]
        for y in range(1, 25):
            if r.random() < 0.8: pk.append(T.addr(m, y) + rtext(r))
        if r.random() < 0.15:
            pk.append(T.x27_flof(m, [(r.choice(self.lops), 0x3F7F) for _ in range(6)], r.choice([0xF, 0x7])))
        return pk + [self.filler(pgno)]

    def phases(self):
        r = self.rng
        top = [self.btt()] + [self.ait_page(a) for a in self.ait]
        if r.random() < 0.7: top.append(self.mpt_page())
        if r.random() < 0.7: top.append(self.mptex_page())
        order = r.choice(["btt-first", "btt-first", "btt-last", "mixed"])
        if order == "btt-last": top = top[1:] + top[:1]
        elif order == "mixed": r.shuffle(top)
        pages = [self.lop(p) for p in self.lops + self.hexp]
        ph = []
        first = []
        for pk in (top + pages if r.random() < 0.7 else pages + top): first += pk
        ph.append(first)
        for _ in range(r.randrange(1, 3)):
            nxt = []
            k = r.random()
            if k < 0.5:          # second cycle: AIT / MPT pages seen before the BTT get their function now
                for a in self.ait: nxt += self.ait_page(a)
                nxt += self.mpt_page() + self.mptex_page()
            elif k < 0.8:
                nxt += self.btt(with_types=r.random() < 0.7)
                for a in r.sample(self.ait, 1): nxt += self.ait_page(a)
            else:
                for p in r.sample(self.lops, 1): nxt += self.lop(p)
                nxt += self.btt()
            ph.append(nxt)
        return ph

    def queries(self):
        r = self.rng
        ops = []
        for p in r.sample(self.lops + self.hexp, min(len(self.lops + self.hexp), r.randrange(1, 5))):
            ops.append("fetch %x %x %d %d %d" % (p, r.choice([0x3F7F, 0]), r.randrange(4), r.choice([25, 25, 25, 25, 24, 1]), r.choice([1, 1, 1, 0])))
            k = r.randrange(6)
            if k == 0: ops.append("resolve")
            elif k == 1: ops.append("export %s -1" % r.choice(["text", "html", "png"]))
            elif k == 2: ops.append("render 32 1 1")
            elif k == 3: ops.append("print 1 2000")
        for _ in range(r.randrange(0, 4)):
            k = r.randrange(4)
            pg = r.choice(self.lops + self.ait + [self.mpt, 0x1F0, 0x100, 0x8FF])
            if k == 0: ops.append("title %x %x" % (pg, r.choice([0, 0x3F7F])))
            elif k == 1: ops.append("classify %x" % pg)
            elif k == 2: ops.append("hisub %x" % pg)
            else:
                ops.append("fetch 900 %x %d 25 %d" % (r.choice([0x3F7F, 0, 1, 2, 0x10]), r.randrange(4), r.randrange(2)))
                if r.random() < 0.5: ops.append(r.choice(["resolve", "export text -1", "render 32 0 0", "export html -1"]))
        if r.random() < 0.6:
            # the TOP index at every sub-page: the first ones (not the last), the last, one past the last
            n = sum(self.ait_fill.values()) + len(self.titles)
            last = n // 18
            subs = list(range(0, last + 2))
            if len(subs) > 4: subs = [0, 1] + r.sample(subs[2:], 2)
            for sn in subs:
                bcd = ((sn // 10) << 4) | (sn % 10)
                ops.append("fetch 900 %x %d %d %d" % (bcd, r.randrange(4), r.choice([25, 25, 24, 1]), r.randrange(2)))
                if r.random() < 0.4: ops.append(r.choice(["resolve", "export text -1", "render 32 0 0", "print 1 4000", "export png -1"]))
        return ops


def enh_case(rng, kind):
    """op lines of one structured Level 2.5 (`l25`), TOP (`top`) or combined (`l25top`) case, without the final `delete`"""
    nets = []
    if kind in ("l25", "l25top"): nets.append(L25(rng))
    if kind in ("top", "l25top"): nets.append(TopNet(rng))
    phases = [n.phases() for n in nets]
    ops, t = [], 0
    for i in range(max(len(p) for p in phases)):
        pk = []
        for p in phases:
            if i < len(p): pk += p[i]
        if rng.random() < 0.12:
            pk = [noise(rng, p, rng.choice([0.003, 0.01])) for p in pk]
        if rng.random() < 0.05 and len(pk) > 4:
            del pk[rng.randrange(len(pk))]            # a lost packet
        lines = [(T.SL_TTX, rng.choice([7, 8, 20, 21, 320]), p) for p in pk]
        o, t = frames_to_ops(rng, lines, t, per_frame=(4, 16))
        ops += o
        for n in nets:
            for _ in range(rng.randrange(1, 3)):
                ops += n.queries()
        if rng.random() < 0.25:
            ops += search_ops(rng, Net(rng))
        if rng.random() < 0.04:
            ops.append("chsw %d" % rng.randrange(3))
    for n in nets:
        for c in getattr(n, "corners", ()):
            CELL_REACH[c] = CELL_REACH.get(c, 0) + 1
    return ops
