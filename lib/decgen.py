"""Stream generators for the whole-decoder checks (C01, also used by C17): structured Teletext networks
(normal pages, Level 2.5 enhancement, MOT / POP / DRCS / MIP / TOP pages, 8/30), caption + XDS + ITV streams,
VPS, WSS, noise - every random choice comes from the `rng` passed in."""
import ttxenc as T

MODES_COL = [0x00, 0x01, 0x02, 0x03, 0x06, 0x07, 0x08, 0x09, 0x0B, 0x0C, 0x0D, 0x0E, 0x0F] + list(range(0x10, 0x20))
MODES_ROW = [0x00, 0x01, 0x04, 0x07, 0x10, 0x11, 0x12, 0x13, 0x15, 0x16, 0x17, 0x18, 0x1F, 0x08, 0x0A]

SPACING = list(range(0x00, 0x20))
WORDS = ["hello", "world", "NEWS", "sport", "Wetter", "index", "100", "zvbi", "text", "Page", "abc", "xyz", "TV", "a", ""]


def rtext(rng, n=40, p_ctrl=0.12):
    out = []
    while len(out) < n:
        k = rng.random()
        if k < p_ctrl:
            out.append(rng.choice(SPACING))
        elif k < 0.5:
            out += [ord(c) for c in rng.choice(WORDS)] + [0x20]
        else:
            out.append(rng.randrange(0x20, 0x80))
    return [T.par(b) for b in out[:n]]


def noise(rng, b, p=0.01):
    """flip one or two bits in a few bytes"""
    b = list(b)
    for i in range(len(b)):
        if rng.random() < p:
            b[i] ^= 1 << rng.randrange(8)
            if rng.random() < 0.3:
                b[i] ^= 1 << rng.randrange(8)
    return b


class Net:
    """a small pool of page numbers so that links, MOT tables and object pointers hit real pages"""

    def __init__(self, rng):
        self.rng = rng
        self.mags = rng.sample(range(1, 9), rng.randrange(1, 4))
        self.pool = []
        for m in self.mags:
            for _ in range(rng.randrange(2, 6)):
                k = rng.random()
                if k < 0.7:
                    pg = rng.randrange(0, 10) * 16 + rng.randrange(0, 10)
                else:
                    pg = rng.randrange(0, 0xFF)
                self.pool.append((m, pg))
        self.special = []
        for m in self.mags:
            self.special += [(m, 0xFE, "mot"), (m, 0xFD, "mip")]
            for _ in range(rng.randrange(0, 3)):
                self.special.append((m, rng.choice([0xA0, 0xA1, 0xB0, 0xC5, 0xDF, 0xE0]), rng.choice(["pop", "gpop", "drcs", "gdrcs"])))
        if rng.random() < 0.5 and 1 in self.mags:
            self.special += [(1, 0xF0, "btt"), (1, 0xF1, "mpt"), (1, 0xF2, "ait"), (1, 0xF3, "mptex")]
        self.serial = rng.random() < 0.3

    def pgno(self, mp):
        return ((mp[0] & 7) or 8) * 256 + mp[1]

    def any_pgno(self):
        r = self.rng
        k = r.random()
        if k < 0.6 and self.pool:
            return self.pgno(r.choice(self.pool))
        if k < 0.85 and self.special:
            s = r.choice(self.special)
            return self.pgno(s)
        return r.choice([0x100, 0x8FF, 0x1FF, 0x899, 0x7FE, 0x1F0, 0xFF, 0x900, 0, r.randrange(0x100, 0x900)])

    def flags(self):
        r = self.rng
        f = 0
        if r.random() < 0.5: f |= T.C4_ERASE
        if self.serial: f |= T.C11_SERIAL
        for bit, p in ((T.C5_NEWSFLASH, .05), (T.C6_SUBTITLE, .05), (T.C7_SUPPRESS, .05), (T.C8_UPDATE, .2),
                       (T.C9_INTERRUPTED, .05), (T.C10_INHIBIT, .05)):
            if r.random() < p: f |= bit
        return f

    def subcode(self):
        r = self.rng
        k = r.random()
        if k < 0.5: return 0
        if k < 0.8: return r.randrange(1, 8) | (r.randrange(0, 8) << 4 if r.random() < 0.3 else 0)
        if k < 0.9: return r.choice([0x2359, 0x1200, 0x0059, 0x3F7F, 0x0079, 0x0080])
        return r.randrange(0x4000) & 0x3F7F

    def link(self):
        r = self.rng
        return (self.any_pgno(), r.choice([0x3F7F, 0, 1, r.randrange(0x4000) & 0x3F7F]))

    def hdr_text(self, mp):
        return "%1d%02X ZVBI Mon 29 Sep \x03%02d:%02d:%02d" % (mp[0], mp[1], self.rng.randrange(24), self.rng.randrange(60), self.rng.randrange(60))

    # --- packets of one transmission of a page -------------------------------------------------
    def triplets(self, n=13):
        r = self.rng
        out = []
        for _ in range(n):
            k = r.random()
            if k < 0.35:
                out.append((r.randrange(40, 64), r.choice(MODES_ROW), r.randrange(128)))
            elif k < 0.85:
                out.append((r.randrange(0, 40), r.choice(MODES_COL), r.randrange(128)))
            elif k < 0.95:
                out.append((r.randrange(64), r.randrange(32), r.randrange(128)))
            else:
                out.append((0x3F, 0x1F, r.randrange(128)))
        return out

    def x28_triplets(self, function=None, coding=None):
        r = self.rng
        t = [r.randrange(1 << 18) for _ in range(13)]
        if function is not None:
            t[0] = (t[0] & ~0x7F) | (function & 15) | (((coding if coding is not None else r.randrange(8)) & 7) << 4)
        return t

    def lop(self, mp):
        r = self.rng
        m = mp[0]
        pk = [T.header(m, mp[1], self.subcode(), self.flags(), r.randrange(8), self.hdr_text(mp))]
        rows = [y for y in range(1, 26) if r.random() < 0.7]
        if r.random() < 0.3: r.shuffle(rows)
        for y in rows:
            pk.append(T.addr(m, y) + rtext(r))
        if r.random() < 0.5:
            pk.append(T.x27_flof(m, [self.link() for _ in range(6)], r.randrange(16)))
        if r.random() < 0.3:
            pk.append(T.x27_enh(m, r.choice([4, 5, 1, 2, 3, 6, 7, 8]), [(self.any_pgno(), r.randrange(4)) for _ in range(6)]))
        if r.random() < 0.6:
            nd = r.choice([1, 1, 2, 3, 16])
            ds = list(range(nd)) if r.random() < 0.8 else [r.randrange(16) for _ in range(nd)]
            for d in ds:
                pk.append(T.x26(m, d & 15, self.triplets()))
        if r.random() < 0.3:
            pk.append(T.x28(m, 28, r.choice([0, 4, 0, 4, 1, 2, 3]), self.x28_triplets(0, 0)))
        if r.random() < 0.1:
            pk.append(T.x28(m, 29, r.choice([0, 4, 1]), self.x28_triplets(0, 0)))
        return pk

    def ham_page(self, mp, packets, x28fn=None):
        """page whose packets 1..n are Hamming 8/4 nibbles (MOT, MIP, BTT, MPT ...)"""
        r = self.rng
        m = mp[0]
        pk = [T.header(m, mp[1], self.subcode() if r.random() < 0.3 else 0, self.flags(), 0, self.hdr_text(mp))]
        if x28fn is not None:
            pk.append(T.x28(m, 28, 0, self.x28_triplets(x28fn, r.choice([0, 1, 2, 3, 4, 5]))))
        for y in packets:
            pk.append(T.addr(m, y) + [T.ham8(r.randrange(16)) for _ in range(40)])
        return pk

    def mot(self, mp):
        r = self.rng
        m = mp[0]
        pk = [T.header(m, 0xFE, 0, self.flags(), 0, self.hdr_text(mp))]
        for y in range(1, 15):
            if r.random() < 0.8:
                pk.append(T.addr(m, y) + [T.ham8(r.randrange(16)) for _ in range(40)])
        for y in (19, 20, 22, 23):
            if r.random() < 0.8:
                b = []
                for _ in range(4):
                    pg = self.any_pgno()
                    b += [T.ham8((pg >> 8) & 7), T.ham8((pg >> 4) & 15), T.ham8(pg & 15)] + [T.ham8(r.randrange(16)) for _ in range(7)]
                pk.append(T.addr(m, y) + b)
        for y in (21, 24):
            if r.random() < 0.8:
                b = []
                for _ in range(8):
                    pg = self.any_pgno()
                    b += [T.ham8((pg >> 8) & 7), T.ham8((pg >> 4) & 15), T.ham8(pg & 15), T.ham8(r.randrange(16))]
                b += [T.ham8(0)] * 8
                pk.append(T.addr(m, y) + b[:40])
        return pk

    def pop(self, mp, kind):
        r = self.rng
        m = mp[0]
        pk = [T.header(m, mp[1], self.subcode(), self.flags(), 0, self.hdr_text(mp))]
        if r.random() < 0.7:
            pk.append(T.x28(m, 28, 0, self.x28_triplets(2 if kind == "pop" else 1, 3)))
        for y in range(1, 26):
            if r.random() < 0.7:
                b = [T.ham8(r.choice([1, 0, 1, r.randrange(16)]))]
                for a, mo, d in self.triplets():
                    b += T.triplet(a, mo, d)
                pk.append(T.addr(m, y) + b)
        for d in range(r.randrange(0, 4)):
            pk.append(T.x26(m, d, self.triplets()))
        return pk

    def drcs(self, mp, kind):
        r = self.rng
        m = mp[0]
        pk = [T.header(m, mp[1], self.subcode(), self.flags(), 0, self.hdr_text(mp))]
        if r.random() < 0.7:
            pk.append(T.x28(m, 28, r.choice([0, 3]), self.x28_triplets(5 if kind == "drcs" else 4, r.randrange(8))))
        for y in range(1, 25):
            if r.random() < 0.8:
                pk.append(T.addr(m, y) + [T.par(r.randrange(0x40, 0x80)) if r.random() < 0.9 else r.randrange(256) for _ in range(40)])
        return pk

    def page_packets(self, entry):
        r = self.rng
        if len(entry) == 2:
            pk = self.lop(entry)
        else:
            kind = entry[2]
            mp = (entry[0], entry[1])
            if kind == "mot": pk = self.mot(mp)
            elif kind == "mip": pk = self.ham_page(mp, [y for y in range(1, 15) if r.random() < 0.8])
            elif kind in ("btt", "mpt", "mptex"): pk = self.ham_page(mp, [y for y in range(1, 24) if r.random() < 0.8])
            elif kind == "ait":
                pk = [T.header(mp[0], mp[1], 0, self.flags(), 0, self.hdr_text(mp))]
                for y in range(1, 24):
                    b = []
                    for _ in range(2):
                        b += [T.ham8(r.randrange(16)) for _ in range(8)] + rtext(r, 12, 0.02)
                    pk.append(T.addr(mp[0], y) + b)
            elif kind in ("pop", "gpop"): pk = self.pop(mp, kind)
            else: pk = self.drcs(mp, kind)
        return pk

    def p830(self):
        r = self.rng
        d = r.choice([0, 1, 2, 3])
        body = [r.randrange(256) for _ in range(13)] if r.random() < 0.5 else [T.ham8(r.randrange(16)) for _ in range(13)]
        return T.p830(d, self.any_pgno(), body, "ZVBI TEST %d" % r.randrange(100))

    def transmission(self, n_pages):
        """interleaved packet stream (list of 42-byte payloads) for n_pages page transmissions"""
        r = self.rng
        streams = {}
        entries = self.pool + self.special
        for _ in range(n_pages):
            e = r.choice(entries)
            streams.setdefault(e[0], []).extend(self.page_packets(e))
        out = []
        if self.serial:
            for m in streams:
                out += streams[m]
        else:
            keys = list(streams)
            while keys:
                k = r.choice(keys)
                n = r.randrange(1, 6)
                out += streams[k][:n]
                streams[k] = streams[k][n:]
                if not streams[k]: keys.remove(k)
        # closing headers so that the last pages get stored
        for m in self.mags:
            out.append(T.header(m, 0xFF, 0x3F7F, T.C11_SERIAL if self.serial else 0, 0, "filler"))
        i = 0
        while i < len(out):
            if r.random() < 0.03: out.insert(i, self.p830()); i += 1
            i += 1
        return out


# ------------------------------------------------------------------------------------------------
# caption / XDS / ITV
def cc_stream(rng, n):
    """list of (field, b1, b2) with odd parity applied"""
    out = []
    def pair(f, a, b): out.append((f, T.par(a), T.par(b)))
    while len(out) < n:
        f = 1 if rng.random() < 0.7 else 2
        ch = rng.randrange(2)
        k = rng.random()
        if k < 0.25:      # PAC
            pair(f, 0x10 | (ch << 3) | rng.randrange(8), 0x40 | rng.randrange(0x40))
        elif k < 0.45:    # misc control 0x14/0x15 (and 0x1C/1D), 0x20-0x2F
            c1 = rng.choice([0x14, 0x15]) | (ch << 3)
            c2 = 0x20 | rng.randrange(16)
            pair(f, c1, c2)
            if rng.random() < 0.7: pair(f, c1, c2)
        elif k < 0.5:     # tab offsets, mid row, special chars, extended, background
            pair(f, rng.choice([0x11, 0x12, 0x13, 0x17, 0x10]) | (ch << 3), 0x20 | rng.randrange(0x20))
        elif k < 0.9:
            for _ in range(rng.randrange(1, 12)):
                pair(f, rng.randrange(0x20, 0x80), rng.choice([0, rng.randrange(0x20, 0x80)]))
        elif k < 0.95:
            pair(f, rng.randrange(128), rng.randrange(128))
        else:
            out.append((f, rng.randrange(256), rng.randrange(256)))
    return out


PAC_ROW = {1: (0x11, 0x40), 2: (0x11, 0x60), 3: (0x12, 0x40), 4: (0x12, 0x60), 5: (0x15, 0x40), 6: (0x15, 0x60),
           7: (0x16, 0x40), 8: (0x16, 0x60), 9: (0x17, 0x40), 10: (0x17, 0x60), 11: (0x10, 0x40), 12: (0x13, 0x40),
           13: (0x13, 0x60), 14: (0x14, 0x40), 15: (0x14, 0x60)}


def cc_script(rng, n_steps):
    """well-formed caption scripts: roll-up with every base row (also rows smaller than the roll-up depth), pop-on with
    EOC, paint-on, text mode; control codes doubled as on field 1"""
    out = []
    f = 1 if rng.random() < 0.8 else 2
    ch = rng.randrange(2)
    def ctl(c2):
        c1 = 0x14 | (ch << 3)
        out.append((f, T.par(c1), T.par(c2)))
        if f == 1: out.append((f, T.par(c1), T.par(c2)))
    def pac(row, extra=0):
        a, b = PAC_ROW[row]
        out.append((f, T.par(a | (ch << 3)), T.par(b | (extra & 0x1F))))
        if f == 1: out.append((f, T.par(a | (ch << 3)), T.par(b | (extra & 0x1F))))
    def txt(s):
        bs = [ord(c) & 0x7F for c in s]
        if len(bs) % 2: bs.append(0)
        for i in range(0, len(bs), 2): out.append((f, T.par(bs[i]), T.par(bs[i + 1])))
    for _ in range(n_steps):
        mode = rng.choice(["ru", "ru", "pop", "paint", "text"])
        if mode == "ru":
            ctl(rng.choice([0x25, 0x26, 0x27]))
            for _ in range(rng.randrange(1, 5)):
                if rng.random() < 0.7: pac(rng.randrange(1, 16), rng.randrange(32))
                txt(rng.choice(WORDS) + " " + rng.choice(WORDS))
                for _ in range(rng.randrange(1, 4)): ctl(0x2D)
                if rng.random() < 0.2: ctl(rng.choice([0x21, 0x24, 0x2C, 0x2E]))
        elif mode == "pop":
            ctl(0x20)
            if rng.random() < 0.5: ctl(0x2E)
            for _ in range(rng.randrange(1, 4)):
                pac(rng.randrange(1, 16), rng.randrange(32)); txt(rng.choice(WORDS) * rng.randrange(1, 8))
                if rng.random() < 0.3: out.append((f, T.par(0x17 | (ch << 3)), T.par(0x21 + rng.randrange(3))))
            ctl(0x2F)
        elif mode == "paint":
            ctl(0x29); pac(rng.randrange(1, 16), rng.randrange(32)); txt(rng.choice(WORDS) * rng.randrange(1, 10))
            for _ in range(rng.randrange(0, 3)): ctl(rng.choice([0x21, 0x24, 0x2D]))
        else:
            ctl(rng.choice([0x2A, 0x2B])); txt(rng.choice(WORDS) * rng.randrange(1, 12)); ctl(0x2D)
        if rng.random() < 0.2: ch ^= 1
        if rng.random() < 0.1: f = 3 - f
    return out


def xds_packet(rng):
    """pairs (field 2) of one XDS packet; sometimes interrupted / corrupted"""
    cls = rng.choice([1, 3, 5, 7, 9, 0xB, 0xD, 1, 1, 5])
    typ = rng.randrange(1, 0x18) if rng.random() < 0.9 else rng.randrange(0x80)
    n = rng.choice([1, 2, 3, 4, 6, 8, 10, 16, 31, 32, 33, 34, 40]) if rng.random() < 0.3 else rng.randrange(1, 33)
    pay = [rng.randrange(0x20, 0x80) for _ in range(n)]
    if rng.random() < 0.3:
        pay = [rng.randrange(0x40, 0x80) for _ in range(n)]
    b = [cls, typ] + pay
    if len(b) % 2: b.append(0)
    b.append(0x0F)
    ck = (-sum(b)) & 0x7F
    if rng.random() < 0.1: ck ^= 1 << rng.randrange(7)
    b.append(ck)
    pairs = [(2, T.par(b[i]), T.par(b[i + 1])) for i in range(0, len(b), 2)]
    if rng.random() < 0.2 and len(pairs) > 2:   # interrupt with caption and resume with continue code
        i = rng.randrange(1, len(pairs) - 1)
        pairs = pairs[:i] + [(2, T.par(0x14), T.par(0x2C))] + [(2, T.par(cls + 1), T.par(typ))] + pairs[i:]
    return pairs


def itv_text(rng):
    """ITV / WebTV link sent in text mode T2 (field 1, channel 2 text): TR, text, CR"""
    url = rng.choice(["<http://zapping.sf.net>", "<http://a.b/c?d=%d>" % rng.randrange(1000), "<lid://x>", "<", "<>", "<http://" + "a" * rng.randrange(300) + ">"])
    attrs = "".join(rng.choice(["[n:name]", "[t:p]", "[e:%d]" % rng.randrange(99999999), "[s:script]", "[v:1]", "[]", "[x", "[e:20261231T235959]"]) for _ in range(rng.randrange(4)))
    s = url + attrs
    if rng.random() < 0.7:
        ck = 0
        bs = s.encode("latin1")
        bs2 = bs + (b"\0" if len(bs) % 2 else b"")
        for i in range(0, len(bs2), 2):
            ck += bs2[i] * 256 + bs2[i + 1]
        ck = (~((ck & 0xFFFF) + (ck >> 16))) & 0xFFFF
        s += "[%04X]" % ck
    pairs = [(1, T.par(0x15), T.par(0x2A)), (1, T.par(0x15), T.par(0x2A))]   # text restart, channel T2? (0x15: channel 2 of field 1)
    bs = [ord(c) & 0x7F for c in s]
    if len(bs) % 2: bs.append(0)
    pairs += [(1, T.par(bs[i]), T.par(bs[i + 1])) for i in range(0, len(bs), 2)]
    pairs += [(1, T.par(0x15), T.par(0x2D))] * 2
    return pairs


# ------------------------------------------------------------------------------------------------
def frames_to_ops(rng, lines, t0=0, dt=40000, per_frame=(1, 8), jitter=True):
    """lines: list of (service id, line number, payload bytes) -> op lines with `dec` after each frame"""
    ops = []
    t = t0
    i = 0
    while i < len(lines):
        n = rng.randrange(per_frame[0], per_frame[1] + 1)
        for sid, ln, b in lines[i:i + n]:
            ops.append("l %x %d %s" % (sid, ln, T.hx(b)))
        ops.append("dec %d" % t)
        i += n
        k = rng.random() if jitter else 1.0
        if k < 0.02: t += rng.choice([-dt * 5, dt * 30, 10 ** 9, -t])     # time jumps (dropped frames, backward)
        elif k < 0.04: t += 0
        else: t += dt
    return ops, t


def query_ops(rng, net, heavy=True):
    """fetch + everything one can do with a fetched page"""
    ops = []
    pg = net.any_pgno()
    sub = rng.choice([0x3F7F, 0x3F7F, 0, 1, 2, rng.randrange(0x4000)])
    ops.append("fetch %x %x %d %d %d" % (pg, sub, rng.randrange(4), rng.choice([25, 25, 24, 1, 2, 10, 0]), rng.randrange(2)))
    for _ in range(rng.randrange(0, 4 if heavy else 2)):
        k = rng.randrange(10)
        if k == 0: ops.append("resolve")
        elif k == 1: ops.append("print %d %d" % (rng.randrange(2), rng.choice([0, 1, 40, 1000, 1055, 1056, 4000])))
        elif k == 2: ops.append("export %s %d" % (rng.choice(["text", "html", "ppm", "png", "xpm", "vtx", "string", "text"]), rng.choice([-1, -1, 0, 1, 100, 5000])))
        elif k == 3: ops.append("render %d %d %d" % (rng.choice([32, 32, 6, 1, 40]), rng.randrange(2), rng.randrange(2)))
        elif k == 4:
            c, r_ = rng.randrange(40), rng.randrange(25)
            ops.append("region 32 %d %d %d %d" % (c, r_, rng.randrange(1, 41 - c), rng.randrange(1, 26 - r_)))
        elif k == 5: ops.append("classify %x" % net.any_pgno())
        elif k == 6: ops.append("title %x %x" % (net.any_pgno(), rng.choice([0, 0x3F7F, 1])))
        elif k == 7: ops.append("cached %x %x" % (net.any_pgno(), rng.choice([0, 0x3F7F, 1])))
        elif k == 8: ops.append("hisub %x" % net.any_pgno())
        else: ops.append("fetchcc %d" % rng.randrange(0, 10))
    return ops


def search_ops(rng, net):
    pat = rng.choice(["hello", "NEWS", "a", "x.z", "[0-9]+", "zvbi|sport", "nomatchxyzzy", "W.*r", "\\d\\d:", "(", "a{2}", "",
                      "|a", "(|)", "()a", "(*)", "[a", "[^", "\\p31", "\\p1,2", "[\\p33]", "a|", "((a)", "a)", "\\", "[a-", "^$", "$^",
                      "a**", "+", "?", "".join(rng.choice("ab|()[]*+?.\\^$-p1,") for _ in range(rng.randrange(1, 9)))])
    ucs = "".join("%04x" % ord(c) for c in pat) or "-"
    ops = ["search %x %x %d %d %s" % (net.any_pgno() if rng.random() < 0.8 else 0x100, rng.choice([0x3F7F, 0, 1]),
                                      rng.randrange(2), rng.randrange(2), ucs)]
    for _ in range(rng.randrange(1, 6)):
        ops.append("next %d" % rng.choice([1, 1, -1]))
    if rng.random() < 0.5: ops.append("endsearch")
    return ops
