"""Sender-side helpers for the C13 check (component `net`): builds the sliced lines a station transmits.

VPS lines are built here from EN 300 231 (bit layout of bytes 2, 8..12 of the 13-byte VPS word);
8/30 packets are built by the Lean spec encoders of C12 (`zvbi_model codec spec_enc8301/8302`)
over a `fill` that carries a valid packet address, designation and initial page link.
"""
import subprocess

HAM8 = [0x15, 0x02, 0x49, 0x5e, 0x64, 0x73, 0x38, 0x2f, 0xd0, 0xc7, 0x8c, 0x9b, 0xa1, 0xb6, 0xfd, 0xea]  # EN 300 706 8.2

EV = {"TTX_PAGE": 0x02, "CAPTION": 0x04, "NETWORK": 0x08, "ASPECT": 0x40, "PROG_INFO": 0x80,
      "NETWORK_ID": 0x100, "LOCAL_TIME": 0x400, "PROG_ID": 0x800}
MASK_ALL = sum(EV.values())


def hx(bs):
    return "".join("%02x" % b for b in bs) or "-"


def vps_word(cni, pil=0, pcs=0, pty=0, fill=None):
    """13-byte VPS word carrying a 12-bit CNI, 20-bit PIL, PCS audio and PTY"""
    b = list(fill) if fill else [0] * 13
    b[2] = (b[2] & 0x3F) | ((pcs & 3) << 6)
    b[8] = ((pil >> 14) & 0x3F) | (cni & 0xC0)
    b[9] = (pil >> 6) & 0xFF
    b[10] = ((pil << 2) & 0xFC) | ((cni >> 10) & 3)
    b[11] = (cni & 0x3F) | ((cni >> 2) & 0xC0)
    b[12] = pty & 0xFF
    return b


def vps_cni_of(b):
    v = ((b[10] & 3) << 10) + ((b[11] & 0xC0) << 2) + (b[8] & 0xC0) + (b[11] & 0x3F)
    if v == 0x0DC3:
        v = 0x0DC1 if b[2] & 0x10 else 0x0DC2
    return v


def fill_830(designation, rng=None):
    """42 fill bytes: magazine 8 packet 30 address, designation, initial page link 8FF/3F7F, random rest"""
    f = [rng.randrange(256) if rng else 0x20 for _ in range(42)]
    f[0] = HAM8[0]
    f[1] = HAM8[15]
    f[2] = HAM8[designation & 15]
    link = [0xF, 0xF, 0xF, 0x7, 0xF, 0x3]
    for i, n in enumerate(link):
        f[3 + i] = HAM8[n]
    return f


class Encoder:
    """batches calls to the Lean spec encoders"""
    def __init__(self, model_exe):
        self.exe = model_exe
        self.req = []

    def p8301(self, cni, mjd=58754, hh=12, mm=0, ss=0, lto=2, neg=0, designation=0, rng=None):
        self.req.append("spec_enc8301 %s %d %d %d %d %d %d %d" % (hx(fill_830(designation, rng)), cni, mjd, hh, mm, ss, lto, neg))
        return len(self.req) - 1

    def p8302(self, cni, pil=0, pty=0, lci=0, luf=0, prf=0, pcs=0, mi=1, designation=2, rng=None):
        self.req.append("spec_enc8302 %s %d %d %d %d %d %d %d %d" % (hx(fill_830(designation, rng)), lci, luf, prf, pcs, mi, cni, pil, pty))
        return len(self.req) - 1

    def run(self):
        if not self.req:
            return []
        p = subprocess.run([self.exe, "codec"], input=("\n".join(self.req) + "\n").encode(), stdout=subprocess.PIPE, timeout=600)
        out = []
        for l in p.stdout.decode().split("\n"):
            if l.startswith("ok "):
                out.append(list(bytes.fromhex(l.split()[1])))
            elif l:
                out.append(None)
        assert len(out) == len(self.req), (len(out), len(self.req))
        return out


def wss_word(fmt, film=0, subt=0, rest=0):
    """WSS 625 group 1 (aspect, odd parity in bit 3) + film bit; subtitle bits in byte 1"""
    a = fmt & 7
    par = 1 ^ ((a ^ (a >> 1) ^ (a >> 2)) & 1)
    b0 = a | (par << 3) | ((film & 1) << 4) | (rest & 0xE0)
    b1 = ((subt & 3) << 1) | ((rest >> 8) & 0x39)
    return [b0 & 0xFF, b1 & 0xFF]


def parse_events(line):
    """'ok net:..:.. nid:...' -> list of (tag, [fields])"""
    toks = line.split()
    if not toks or toks[0] != "ok":
        return None
    return [(t.split(":")[0], t.split(":")[1:]) for t in toks[1:]]
