"""Sender-side helpers for the C13 check (component `net`): builds the sliced lines a station transmits.

VPS lines are built here from EN 300 231 (bit layout of bytes 2, 8..12 of the 13-byte VPS word);
8/30 packets are built by the Lean spec encoders of C12 (`zvbi_model codec spec_enc8301/8302`)
over a `fill` that carries a valid packet address, designation and initial page link.
"""
import subprocess

HAM8 = [0x15, 0x02, 0x49, 0x5e, 0x64, 0x73, 0x38, 0x2f, 0xd0, 0xc7, 0x8c, 0x9b, 0xa1, 0xb6, 0xfd, 0xea]  # EN 300 706 8.2

EV = {"TTX_PAGE": 0x02, "CAPTION": 0x04, "NETWORK": 0x08, "ASPECT": 0x40, "PROG_INFO": 0x80,
      "NETWORK_ID": 0x100, "LOCAL_TIME": 0x400, "PROG_ID": 0x800}
MASK_ALL = sum(EV.values())


def hx(bs):
    return "".join("%02x" % b for b in bs) or "-"


def vps_word(cni, pil=0, pcs=0, pty=0, fill=None):
    """13-byte VPS word carrying a 12-bit CNI, 20-bit PIL, PCS audio and PTY"""
    b = list(fill) if fill else [0] * 13
    b[2] = (b[2] & 0x3F) | ((pcs & 3) << 6)
    b[8] = ((pil >> 14) & 0x3F) | (cni & 0xC0)
    b[9] = (pil >> 6) & 0xFF
    b[10] = ((pil << 2) & 0xFC) | ((cni >> 10) & 3)
    b[11] = (cni & 0x3F) | ((cni >> 2) & 0xC0)
    b[12] = pty & 0xFF
    return b


def vps_cni_of(b):
    v = ((b[10] & 3) << 10) + ((b[11] & 0xC0) << 2) + (b[8] & 0xC0) + (b[11] & 0x3F)
    if v == 0x0DC3:
        v = 0x0DC1 if b[2] & 0x10 else 0x0DC2
    return v


def fill_830(designation, rng=None):
    """42 fill bytes: magazine 8 packet 30 address, designation, initial page link 8FF/3F7F, random rest"""
    f = [rng.randrange(256) if rng else 0x20 for _ in range(42)]
    f[0] = HAM8[0]
    f[1] = HAM8[15]
    f[2] = HAM8[designation & 15]
    link = [0xF, 0xF, 0xF, 0x7, 0xF, 0x3]
    for i, n in enumerate(link):
        f[3 + i] = HAM8[n]
    return f


class Encoder:
    """batches calls to the Lean spec encoders"""
    def __init__(self, model_exe):
        self.exe = model_exe
        self.req = []
        self.meta = []      # what the sender put into packet i: ("8301", cni, mjd, hh, mm, ss, lto, neg, des) / ("8302", cni, pil, pty, lci, luf, prf, pcs, mi, des)

    def p8301(self, cni, mjd=58754, hh=12, mm=0, ss=0, lto=2, neg=0, designation=0, rng=None):
        self.req.append("spec_enc8301 %s %d %d %d %d %d %d %d" % (hx(fill_830(designation, rng)), cni, mjd, hh, mm, ss, lto, neg))
        self.meta.append(("8301", cni, mjd, hh, mm, ss, lto, neg, designation))
        return len(self.req) - 1

    def p8302(self, cni, pil=0, pty=0, lci=0, luf=0, prf=0, pcs=0, mi=1, designation=2, rng=None):
        self.req.append("spec_enc8302 %s %d %d %d %d %d %d %d %d" % (hx(fill_830(designation, rng)), lci, luf, prf, pcs, mi, cni, pil, pty))
        self.meta.append(("8302", cni, pil, pty, lci, luf, prf, pcs, mi, designation))
        return len(self.req) - 1

    def run(self):
        if not self.req:
            return []
        p = subprocess.run([self.exe, "codec"], input=("\n".join(self.req) + "\n").encode(), stdout=subprocess.PIPE, timeout=600)
        out = []
        for l in p.stdout.decode().split("\n"):
            if l.startswith("ok "):
                out.append(list(bytes.fromhex(l.split()[1])))
            elif l:
                out.append(None)
        assert len(out) == len(self.req), (len(out), len(self.req))
        return out


def wss_word(fmt, film=0, subt=0, rest=0):
    """WSS 625 group 1 (aspect, odd parity in bit 3) + film bit; subtitle bits in byte 1"""
    a = fmt & 7
    par = 1 ^ ((a ^ (a >> 1) ^ (a >> 2)) & 1)
    b0 = a | (par << 3) | ((film & 1) << 4) | (rest & 0xE0)
    b1 = ((subt & 3) << 1) | ((rest >> 8) & 0x39)
    return [b0 & 0xFF, b1 & 0xFF]


def cpr_spec(b0):
    """aspect a CPR-1204 (525-line WSS) word announces: bit 7 anamorphic 16:9, bit 6 letterbox (active lines 72..212,
    else the full 22..262); film mode and subtitles are not transmitted"""
    return [72, 212, 2 if b0 & 0x80 else 1, 0, 3] if b0 & 0x40 else [22, 262, 2 if b0 & 0x80 else 1, 0, 3]


def sent_events(m):
    """what a clean packet of the sender must make the decoder report: ("pid", [fields]) / ("lt", [time, seconds east])"""
    if m[0] == "8302":
        _, cni, pil, pty, lci, luf, prf, pcs, mi, des = m
        return "pid", [lci, 3, cni, pil, luf, mi, prf, pcs, pty]
    _, cni, mjd, hh, mm, ss, lto, neg, des = m
    return "lt", [(mjd - 40587) * 86400 + hh * 3600 + mm * 60 + ss, (-1 if neg else 1) * lto * 1800]


def parse_events(line):
    """'ok net:..:.. nid:...' -> list of (tag, [fields])"""
    toks = line.split()
    if not toks or toks[0] != "ok":
        return None
    return [(t.split(":")[0], t.split(":")[1:]) for t in toks[1:]]


# ---------------------------------------------------------------------------------------------------
# XDS network name / call letters (EIA 608 annex; libzvbi: the name is taken without leading blanks,
# control codes inside become blanks) and the id libzvbi documents for XDS stations: a check sum over
# the call letters, or over the name when no call letters are known, bit 30 set.

def xds_filter(bs):
    """what a received text field becomes: leading bytes up to 0x20 dropped, later ones raised to 0x20"""
    i = 0
    while i < len(bs) and bs[i] <= 0x20:
        i += 1
    return bytes(max(0x20, c) for c in bs[i:])


def _hcrc(i):
    s = 0
    for j in range(7):
        if i & (1 << j):
            s ^= 0x48000000 >> j
    return s


HCRC = [_hcrc(i) for i in range(128)]


def xds_nuid(text):
    s = 0
    for c in text:
        s = (s >> 7) ^ HCRC[(s ^ c) & 0x7F]
    return (s & ((1 << 31) - 1)) | (1 << 30)


def cstr(buf):
    """bytes of a char array before the first NUL"""
    out = []
    for c in buf:
        if c == 0:
            break
        out.append(c)
    return bytes(out)


def strfu_spec(dst, src):
    """what storing the received text `src` (7-bit bytes) into the char array `dst` must do:
    -> (changed?, array afterwards) or None when the text does not fit.  String semantics only:
    the array holds the filtered text and a terminator, bytes behind it are not touched, and
    `changed` says whether the C string held before differs from the one held now."""
    new = xds_filter(src)
    if len(new) + 1 > len(dst):
        return None
    after = list(new) + [0] + list(dst[len(new) + 1:])
    return (cstr(dst) != new), after


# ---------------------------------------------------------------------------------------------------
# programme identification as transmitted (EN 300 231): VPS bytes 5, 11..15 (our 2, 8..12) and packet
# 8/30 format 2 bytes 13..25 (Hamming 8/4, bit-reversed nibbles)

def vps_pid_spec(b):
    """fields of the label a 13-byte VPS word carries: dict cni pil pcs pty"""
    return {"cni": vps_cni_of(b), "pil": ((b[8] & 0x3F) << 14) + (b[9] << 6) + (b[10] >> 2), "pcs": b[2] >> 6, "pty": b[12]}


_REV4 = [int("{:04b}".format(i)[::-1], 2) for i in range(16)]


def _unham8(b):
    best = None
    for n, c in enumerate(HAM8):
        if bin(c ^ b).count("1") <= 1:
            best = n
    return best


def p8302_pid_spec(b):
    """fields of the label a 42-byte packet 8/30 format 2 carries (None: a Hamming error in bytes 9..21).
    EN 300 231 8.2.1: byte 13 = LCI b1 b2, LUF b3, PRF b4; then PCS, MI, CNI nibbles, PIL, PTY, LSB first."""
    n = [_unham8(x) for x in b[9:22]]
    if None in n:
        return None
    n = [_REV4[x] for x in n]           # transmitted LSB first: bit-reverse each nibble
    # n[0] = byte 13: LCI(2) LUF PRF ; bytes 14.. as the seven bit-reversed bytes b7..b12 of the libzvbi docs
    by = [(n[1 + 2 * i] << 4) | n[2 + 2 * i] for i in range(6)]     # b7 b8 b9 b10 b11 b12
    b7, b8, b9, b10, b11, b12 = by
    cni = ((b7 & 0x0F) << 12) + ((b10 & 0x03) << 10) + ((b11 & 0xC0) << 2) + (b8 & 0xC0) + (b11 & 0x3F)
    return {"lci": (n[0] >> 2) & 3, "luf": (n[0] >> 1) & 1, "prf": n[0] & 1, "pcs": (b7 >> 6) & 3, "mi": (b7 >> 5) & 1,
            "cni": cni, "pil": ((b8 & 0x3F) << 14) + (b9 << 6) + (b10 >> 2), "pty": b12}
