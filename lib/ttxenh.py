"""Sender-side encoders for Level 2.5 / 3.5 and TOP structures (X/27/4 links, MOT / MIP look-up packets, TOP page links,
bit packing for X/28 payloads), in the layouts libzvbi's parsers read (packet.c parse_27, parse_mot, parse_mip,
unham_top_page_link, parse_28_29).  Builds on ttxenc (which stays untouched); used by lib/decgen.py (C01)."""
import ttxenc as T


def pack_bits(fields):
    """[(value, nbits)] lsb first -> 13 raw 18-bit triplet values"""
    acc, n = 0, 0
    for v, w in fields:
        acc |= (v & ((1 << w) - 1)) << n
        n += w
    return [(acc >> (18 * i)) & 0x3FFFF for i in range(13)]


def x27_4(mag, links, designation=4):
    """X/27/4: six (pgno, function) links in libzvbi's reading of the first triplet: bits 0-1 function,
    7-10 units, 12-14 relative magazine, 15-17 tens (so only tens 0..7 can be addressed); None = no page (xFF)."""
    b = T.addr(mag, 27) + [T.ham8(designation)]
    for i in range(6):
        l = links[i] if i < len(links) else None
        if l is None:
            # "no page" (xFF) cannot be expressed with three tens bits: an uncorrectable pair makes parse_27 stop
            # here and leaves this and the following links at their initial value (no page)
            b += [0, 0, 0, 0, 0, 0]
            continue
        pg, fn = l
        mrel = ((pg >> 8) & 7) ^ (mag & 7)
        t1 = (fn & 3) | ((pg & 0xF) << 7) | (mrel << 12) | (((pg >> 4) & 7) << 15)
        b += T.ham24(t1) + T.ham24(0)
    b += [T.ham8(0)] * 3
    return b[:42]


def lut_packets(mag, values, rng, p_present=1.0):
    """packets 1..14 of a MOT / MIP page: two nibbles per page in the order libzvbi walks them
    (packets 1-8: x0-x9 of two tens each; 9-14: xA-xF of three tens each). values: page -> (n0, n1)"""
    out = []
    for packet in range(1, 9):
        b = []
        base = (packet - 1) << 5
        for i in list(range(0, 10)) + list(range(0x10, 0x1A)):
            n0, n1 = values.get(base + i, (0, 0))
            b += [T.ham8(n0), T.ham8(n1)]
        if rng.random() < p_present:
            out.append(T.addr(mag, packet) + b)
    for packet in range(9, 15):
        b = []
        base = (packet - 9) * 0x30
        for t in (0x00, 0x10, 0x20):
            for u in range(0xA, 0x10):
                n0, n1 = values.get(base + t + u, (0, 0))
                b += [T.ham8(n0), T.ham8(n1)]
        b += [T.ham8(0)] * 4
        if rng.random() < p_present:
            out.append(T.addr(mag, packet) + b[:40])
    return out


def top_link(pgno, subno=0x3F7F, fn=0):
    """8 Hamming 8/4 nibbles of a TOP page link (BTT 21-23, MPT-EX, AIT)"""
    return [T.ham8((pgno >> 8) & 15), T.ham8((pgno >> 4) & 15), T.ham8(pgno & 15), T.ham8((subno >> 12) & 15),
            T.ham8((subno >> 8) & 15), T.ham8((subno >> 4) & 15), T.ham8(subno & 15), T.ham8(fn)]
