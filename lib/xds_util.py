"""Sender spec, reference receiver and stream generators for component `xds` (property C09).

Nothing here is derived from the C code's control flow: `Sender` writes packets the way
EIA-608 / 47 CFR 15.119 describes them, `reference()` is the receiver the property describes
(one reassembly buffer per exact (class, type), discard on unreadable pair, deliver once on a good
checksum).  The deviations of libzvbi that are already known are expressed as *variants* of the
reference so that a mismatch can be named; anything that no variant explains stays a violation.
"""

def par(c):
    c &= 127
    return c if bin(c).count("1") % 2 == 1 else c | 128

def parity_ok(b):
    return bin(b & 255).count("1") % 2 == 1

def hx(a, b):
    return "%02x%02x" % (a & 255, b & 255)

def pairs_of(payload):
    out = []
    for i in range(0, len(payload), 2):
        out.append((payload[i], payload[i + 1] if i + 1 < len(payload) else 0))
    return out

def checksum(cls, sub, payload):
    return (-(2 * cls + 1 + sub + sum(payload) + 0x0F)) % 128

class Packet:
    def __init__(self, cls, sub, payload, ck=None):
        self.cls, self.sub, self.payload = cls, sub, list(payload)
        self.ck = checksum(cls, sub, payload) if ck is None else ck
    def start(self): return (2 * self.cls + 1, self.sub)
    def cont(self): return (2 * self.cls + 2, self.sub)
    def body(self): return pairs_of(self.payload)
    def term(self): return (0x0F, self.ck)
    def wire(self): return [self.start()] + self.body() + [self.term()]

# ---- acceptance / slot mapping as documented by the two tables ------------------------------
D_MAXCLS, D_SUBS, S_CLS, S_SUBS = 3, 0x18, 4, 0x18
def d_remap(sub): return sub - 0x30 if sub >= 0x40 else sub
def d_accepts(cls, sub): return cls <= D_MAXCLS and d_remap(sub) < D_SUBS
def s_accepts(cls, sub): return cls < S_CLS and sub < S_SUBS

def strfu(data):
    i = 0
    while i < len(data) and data[i] <= 0x20:
        i += 1
    return [max(0x20, c) for c in data[i:]]

def nuid_of(s):
    """station id libzvbi derives from the call letters (or, without them, the name): a 7-bit-at-a-time
    CRC with polynomial table entry xor of 0x48000000 >> j over the set bits j of the index,
    reduced to 31 bits with bit 30 set (caption.c init_hcrc / xds_decoder)"""
    sm = 0
    for c in s:
        i = (sm ^ c) & 0x7F
        h = 0
        for j in range(7):
            if i & (1 << j):
                h ^= 0x48000000 >> j
        sm = (sm >> 7) ^ h
    return (sm & 0x7FFFFFFF) | 0x40000000

def reference(pairs, mode, alias=False, reject_kills=False):
    """The receiver the property describes, run over raw byte pairs.
    -> (deliveries [(cls, sub, bytes)], conformant)

    * one reassembly buffer per exact (class, type); start opens/overwrites it, continue re-opens
      it if it is open, payload pairs append (second byte NUL = one character), more than 32
      characters discard the packet, the end pair delivers iff the 7-bit sum is 0 and 1..32
      characters were collected, and closes the packet either way;
    * an unreadable pair (parity) discards the packet it may belong to (the current one);
    * caption control codes 0x10..0x1F interrupt the current packet, NUL pairs do nothing;
    * packets of a (class, type) the table of the demultiplexer under test has no room for are
      swallowed without effect on other packets.
    mode 's' (caption.c) adds the documented routing: while no XDS packet is open (after an end
    pair or a caption control code) only pairs whose readable first byte is 0x01..0x0F are XDS,
    and the documented flush of all buffers when a different network (id derived from call
    letters / name) is announced.
    `conformant` is False when the stream contains an end pair directly in caption context while
    a packet is interrupted (no sender does that; caption.c then closes the interrupted packet).
    Variants name the known deviations: alias = key by the demux buffer index, reject_kills = an
    unsupported header discards the current packet."""
    accepts = d_accepts if mode == "d" else s_accepts
    open_, cur, label, stale = {}, None, None, None
    xds_on, conformant = False, True
    out = []
    net = {"name": [], "call": [], "cycle": 0, "nuid": 0}
    def key(c, t):
        return (c, d_remap(t)) if alias else (c, t)
    for b1, b2 in pairs:
        ok1, ok2 = parity_ok(b1), parity_ok(b2)
        c1, c2 = b1 & 127, b2 & 127
        if not (ok1 and ok2):
            if mode == "s":
                if ok1 and c1 == 0:
                    continue
                if ok1 and 0x10 <= c1 <= 0x1F:
                    stale = cur if cur is not None else stale
                    cur, xds_on = None, False
                    continue
                if not (ok1 and 1 <= c1 <= 0x0F) and not xds_on:
                    continue
                if ok1 and 1 <= c1 <= 0x0F:
                    xds_on = c1 != 0x0F
            victim = cur if cur is not None else stale
            if victim is not None:
                open_.pop(victim, None)
            cur, stale = None, None
            continue
        if c1 == 0:
            continue
        if c1 <= 0x0E:
            cls, sub = (c1 - 1) >> 1, c2
            xds_on, stale = True, None
            if not accepts(cls, sub):
                if reject_kills and cur is not None:
                    open_.pop(cur, None)
                cur, label = None, None
                continue
            k = key(cls, sub)
            if c1 & 1:
                open_[k] = [[], c1 + c2]
                cur, label = k, (cls, sub)
            elif k in open_:
                cur, label = k, (cls, sub)
            else:
                cur, label = None, None
        elif c1 == 0x0F:
            xds_on = False
            if cur is None:
                if mode == "s" and stale is not None:
                    conformant = False
                continue
            data, sm = open_.pop(cur)
            if (sm + c1 + c2) % 128 == 0 and 1 <= len(data) <= 32:
                out.append((label[0], label[1], bytes(data)))
                if mode == "s" and label == (2, 1):
                    t = strfu(data)
                    if t != net["name"]:
                        net["name"], net["cycle"] = t, 1
                    elif net["cycle"] == 1:
                        nid = nuid_of(net["call"] or t)
                        if nid != net["nuid"]:          # a different station: everything is flushed
                            if net["nuid"]:
                                open_.clear()
                            net["nuid"] = nid
                        net["cycle"] = 3
                elif mode == "s" and label == (2, 2):
                    t = strfu(data)
                    if t != net["call"]:
                        net["call"] = t
                        if net["cycle"] != 1:
                            net["name"], net["cycle"] = [], 0
            cur, stale = None, None
        elif c1 <= 0x1F:
            if mode == "s":
                stale = cur if cur is not None else stale
            cur, xds_on = None, False
        else:
            if cur is None or (mode == "s" and not xds_on):
                continue
            ent = open_[cur]
            if len(ent[0]) > 30:
                open_.pop(cur)
                cur = None
                continue
            ent[0].append(c1)
            if c2:
                ent[0].append(c2)
            ent[1] += c1 + c2
    return out, conformant


# ---- generators ----------------------------------------------------------------------------
CAPTION_CTRL = [(0x14, 0x20), (0x14, 0x2C), (0x14, 0x2F), (0x14, 0x25), (0x11, 0x40), (0x1C, 0x20), (0x15, 0x2D)]

def rand_payload(rng, n):
    k = rng.random()
    if k < 0.15:
        return [0x40] * n
    if k < 0.25:
        return [0x7F] * n
    return [rng.randrange(0x20, 0x80) for _ in range(n)]

def rand_class_type(rng, universe="any"):
    if universe == "both":          # accepted by both tables
        return rng.randrange(4), rng.randrange(0x18)
    if universe == "noalias":       # accepted by the demux without the shared 0x1n / 0x4n range
        return rng.randrange(4), rng.randrange(0x10)
    k = rng.random()
    if k < 0.55:
        return rng.randrange(4), rng.choice([1, 2, 3, 4, 5, 8, 0x10, 0x17, rng.randrange(0x18)])
    if k < 0.70:
        return 3, rng.choice([0x40, 0x41, 0x43, 0x47, 0x48, 0x4F])
    if k < 0.85:
        return rng.randrange(4, 7), rng.randrange(0x18)
    return rng.randrange(7), rng.randrange(0x80)

def caption_run(rng):
    run = [rng.choice(CAPTION_CTRL)]
    for _ in range(rng.randrange(0, 4)):
        k = rng.random()
        if k < 0.6:
            run.append((rng.randrange(0x20, 0x80), rng.randrange(0x20, 0x80)))
        elif k < 0.8:
            run.append(rng.choice(CAPTION_CTRL))
        else:
            run.append((0, 0))
    return run

def merge(rng, packets, caption_p=0.3, null_p=0.1, safe=True):
    """Interleave the wire forms of `packets` pair by pair.  -> list of (pair, owner, role).
    A packet that is not the one whose pair was sent last is re-opened with its continue pair.
    safe=True keeps the stream inside what both demultiplexers are known to handle: an unsupported
    (class, type) and two packets sharing a demux buffer never interrupt / overlap another packet."""
    todo = [[i, p, 0, p.wire()] for i, p in enumerate(packets)]   # id, packet, next index, wire
    out, last = [], None
    active = []
    def unsupported(p): return not (d_accepts(p.cls, p.sub) and s_accepts(p.cls, p.sub))
    while todo or active:
        choices = list(active)
        if todo and (not active or (len(active) < 3 and rng.random() < 0.4)):
            cand = todo[0]
            excl = safe and active and (unsupported(cand[1]) or any(
                (a[1].cls, d_remap(a[1].sub)) == (cand[1].cls, d_remap(cand[1].sub)) or unsupported(a[1]) or
                (a[1].cls, a[1].sub) == (2, 1) or (cand[1].cls, cand[1].sub) == (2, 1) for a in active))
            if not excl and not any((a[1].cls, a[1].sub) == (cand[1].cls, cand[1].sub) for a in active):
                choices.append(todo[0])
        if not choices:
            choices = [todo[0]] if not active else list(active)
        ent = rng.choice(choices)
        if ent in todo and ent not in active:
            todo.remove(ent)
            active.append(ent)
        if last is not None and last != ent[0] and rng.random() < caption_p:
            for q in caption_run(rng):
                out.append((q, None, "caption"))
            last = None
        if rng.random() < null_p:
            out.append(((0, 0), None, "null"))
        i, p, k, w = ent
        if k > 0 and last != i:
            out.append((p.cont(), i, "cont"))
        n = 1 if k == 0 else rng.randrange(1, 4)
        for _ in range(n):
            if ent[2] >= len(w):
                break
            role = "start" if ent[2] == 0 else ("term" if ent[2] == len(w) - 1 else "content")
            out.append((w[ent[2]], i, role))
            ent[2] += 1
        last = i
        if ent[2] >= len(w):
            active.remove(ent)
            last = None
    return out

def raw(stream):
    return [(par(a), par(b)) for (a, b), _, _ in stream]

def ops(mode, pairs):
    return ["%s %s" % (mode, hx(a, b)) for a, b in pairs]
