"""C17, regular expression engine src/ure.c: correspondence model ~ real code + oracle (stage of checks/C17.py).

stage(ctx, counts=None, only=None)
    builds harness/ure_harness.c (ure.c #included, ASan+UBSan), runs corpus/C17/ure-*.ops + generated cases through the
    harness and through `zvbi_model ure` (lean/Driver/Ure.lean), diffs the outputs (a fault the model predicts must be the
    sanitizer report of the real code and vice versa), judges the real code's answers with an independent matcher
    (Python `re` used as a language membership test, leftmost-longest taken over all (start, end) pairs), and returns
    [(what, replay_lines)]; `counts` is filled with the numbers for the evidence.  `only` = list of cases (replay).
gen_cases(rng, tier) -> [(ops, kind, meta)]

What the oracle expects (= the contract it judges ure.c by):
  * the match is the LEFTMOST non-empty one and, of those, the LONGEST (POSIX; Python's own search is leftmost-first for
    `|`, so Python only answers "is text[ms:me] in the language")
  * `.` and negated classes do not match the separators \\n \\r U+2028 U+2029 unless URE_DOT_MATCHES_SEPARATORS (ure.h)
  * `^` / `$` (only generated at the outer ends of a pattern): start of text unless URE_NOTBOL / after a separator;
    end of text unless URE_NOTEOL / before a separator
  * case folding = ASCII (the "C" locale the harness runs in)
Known deviations of the current source are named (the `what` strings below are the signatures of
known_findings.C17ure.json); each is excused only under its own condition, computed from the pattern / DFA dump / text,
and only while translate/gen_ure.py reads the unrepaired shape of that place from /repo (U1-U4).
"""
import os, re, sys, time

sys.path.insert(0, os.path.dirname(os.path.abspath(__file__)))
import verif

SEPS = "\n\r  "

# what-strings = signatures (no digits, < 120 characters: checks/C17.py signature() passes them through)
W_DOT = "ure: `.` or a negated class and the separators: _ure_issep has its arguments swapped"
W_HANG = "ure: ure_exec never returns: zero-width `^` transitions form a cycle"
W_TRIE = "ure: _ure_posix_ccl reads behind cclass_trie[] for `:drcs:`"
W_POSIX = "ure: the documented classes `:gfx:` / `:graph:` / `:drcs:` are not recognised"
W_PAT = "ure: ure_compile reads the element behind the pattern when it ends inside a class or a surrogate escape"
W_OVERLAP = "ure: overlapping symbols: the transition of the earlier symbol shadows the later one"
W_NULLABLE = "ure: a pattern that matches the empty string gives up at the first character without transition"
W_EOLEND = "ure: `$` at the end of the text: match end behind the separator / URE_NOTEOL ignored"
W_EOT = "ure: an attempt that runs into the end of the text ends the search: later start positions are not tried"
W_BOLSKIP = "ure: `^`: the line start behind an empty line (or behind a separator that begins the text) is skipped"


def hx(s):
    return "".join("%04x" % (c if isinstance(c, int) else ord(c)) for c in s) or "-"


def unhx(h):
    return "" if h == "-" else "".join(chr(int(h[i:i + 4], 16)) for i in range(0, len(h), 4))


# ---------------------------------------------------------------------------------------------------------------------
# pattern AST: one generator, two independent printers (ure syntax / Python syntax) and a sampler of the language
# ---------------------------------------------------------------------------------------------------------------------
PROPS_PY = {1: "0-9A-Za-z", 2: "A-Za-z", 4: "0-9", 8: "!-/:-@\\[-`{-~", 9: "\\t-\\r ", 11: "0-9A-Fa-f",
            16: "--", 17: "-"}
PROPS_SAMPLE = {1: "a0Z", 2: "abX", 4: "0123", 8: "!-:", 9: " ", 11: "0aF", 16: "", 17: ""}
POSIX = {"alpha": 2, "digit": 4, "alnum": 1, "space": 9, "punct": 8, "xdigit": 11}
URE_META = set("\\^$[].()|*+?")


def ure_lit(c):
    if c in URE_META: return "\\" + c
    if c == "\n": return "\\n"
    if ord(c) > 0x7e or ord(c) < 0x20: return "\\x%04X" % ord(c)
    return c


def py_lit(c):
    return re.escape(c)


class Lit:
    def __init__(s, c): s.c = c
    def ure(s): return ure_lit(s.c)
    def py(s, dot): return py_lit(s.c)
    def sample(s, rng): return s.c
    def nullable(s): return False
    def size(s): return 1


class Any:
    def ure(s): return "."
    def py(s, dot): return "[\\s\\S]" if dot else "[^\n\r  ]"
    def sample(s, rng): return rng.choice("abcx01 ")
    def nullable(s): return False
    def size(s): return 1


class Cls:
    """items: ('c', ch) | ('r', lo, hi) | ('p', n) | ('x', posix name)"""
    def __init__(s, neg, items): s.neg, s.items = neg, items
    def ure(s):
        out = "[" + ("^" if s.neg else "")
        for it in s.items:
            if it[0] == "c": out += ("\\" + it[1]) if it[1] in "\\]^-:[" else ure_lit(it[1]) if it[1] in "\n" else it[1]
            elif it[0] == "r": out += it[1] + "-" + it[2]
            elif it[0] == "p": out += "\\p%d" % it[1]
            else: out += ":%s:" % it[1]
        return out + "]"
    def py(s, dot):
        body = ""
        for it in s.items:
            if it[0] == "c": body += py_lit(it[1])
            elif it[0] == "r": body += py_lit(it[1]) + "-" + py_lit(it[2])
            elif it[0] == "p": body += PROPS_PY[it[1]]
            else: body += PROPS_PY[POSIX[it[1]]]
        if s.neg:
            return "[^" + body + ("" if dot else "\n\r  ") + "]"
        return "[" + body + "]"
    def sample(s, rng):
        if s.neg:
            pyre = re.compile(s.py(False))
            for _ in range(20):
                c = rng.choice("abcdxyz0189 !XYZ")
                if pyre.fullmatch(c): return c
            return "" if pyre.fullmatch("") else "~"
        it = rng.choice(s.items)
        if it[0] == "c": return it[1]
        if it[0] == "r": return chr(rng.randrange(ord(it[1]), ord(it[2]) + 1))
        return rng.choice(PROPS_SAMPLE[it[1] if it[0] == "p" else POSIX[it[1]]])
    def nullable(s): return False
    def size(s): return 1


class Prop:
    def __init__(s, n, neg): s.n, s.neg = n, neg
    def ure(s): return ("\\P%d" if s.neg else "\\p%d") % s.n
    def py(s, dot): return ("[^%s%s]" % (PROPS_PY[s.n], "" if dot else "\n\r  ")) if s.neg else "[%s]" % PROPS_PY[s.n]
    def sample(s, rng):
        if not s.neg: return rng.choice(PROPS_SAMPLE[s.n])
        pyre = re.compile(s.py(False))
        for _ in range(20):
            c = rng.choice("abcxyz019 !-XYZ")
            if pyre.fullmatch(c): return c
        return "é"
    def nullable(s): return False
    def size(s): return 1


class Cat:
    def __init__(s, xs): s.xs = xs
    def ure(s):
        out = ""
        for x in s.xs:
            u = x.ure()
            # the number list of `\pN` runs on into a digit or a comma
            if re.search(r"\\[pP]\d+$", out) and u[:1] in "0123456789,": u = "(" + u + ")"
            out += u
        return out
    def py(s, dot): return "".join(x.py(dot) for x in s.xs)
    def sample(s, rng): return "".join(x.sample(rng) for x in s.xs)
    def nullable(s): return all(x.nullable() for x in s.xs)
    def size(s): return sum(x.size() for x in s.xs)


class Alt:
    def __init__(s, xs): s.xs = xs
    def ure(s): return "(" + "|".join(x.ure() for x in s.xs) + ")"
    def py(s, dot): return "(?:" + "|".join(x.py(dot) for x in s.xs) + ")"
    def sample(s, rng): return rng.choice(s.xs).sample(rng)
    def nullable(s): return any(x.nullable() for x in s.xs)
    def size(s): return sum(x.size() for x in s.xs)


class Rep:
    def __init__(s, x, op): s.x, s.op = x, op
    def _atom(s, t, grp):
        return t if isinstance(s.x, (Lit, Any, Cls, Prop, Alt)) else grp % t
    def ure(s): return s._atom(s.x.ure(), "(%s)") + s.op
    def py(s, dot): return s._atom(s.x.py(dot), "(?:%s)") + s.op
    def sample(s, rng):
        n = {"*": rng.choice([0, 1, 2, 3]), "+": rng.choice([1, 1, 2, 3]), "?": rng.choice([0, 1])}[s.op]
        return "".join(s.x.sample(rng) for _ in range(n))
    def nullable(s): return s.op in "*?" or s.x.nullable()
    def size(s): return s.x.size() + 1


DISJOINT_POOL = [lambda: Lit("a"), lambda: Lit("b"), lambda: Cls(False, [("r", "c", "e")]), lambda: Cls(False, [("r", "0", "4")]),
                 lambda: Prop(9, False), lambda: Cls(False, [("c", "x"), ("c", "y"), ("c", "5")]), lambda: Lit("."),
                 lambda: Lit("Z"), lambda: Cls(False, [("x", "punct")]), lambda: Lit(""), lambda: Cls(False, [("r", "f", "h"), ("c", "7")])]


def gen_atom(rng, mode):
    if mode == "disjoint":
        return rng.choice(DISJOINT_POOL)()
    r = rng.random()
    if r < 0.45: return Lit(rng.choice("abcab01x .*+(A"))
    if r < 0.58: return Any()
    if r < 0.80:
        items = []
        for _ in range(rng.randrange(1, 4)):
            k = rng.random()
            if k < 0.4: items.append(("c", rng.choice("abc01x-]^:")))
            elif k < 0.75:
                lo = rng.choice("a0Ac"); items.append(("r", lo, chr(ord(lo) + rng.randrange(0, 4))))
            elif k < 0.9: items.append(("p", rng.choice([1, 2, 4, 9, 11])))
            else: items.append(("x", rng.choice(sorted(POSIX))))
        # `\pN` inside a class ASSIGNS the property mask (a second one, or one after a POSIX name, replaces what was
        # collected) and its number list runs on into a following digit or comma: at most one, at the end
        ps = [it for it in items if it[0] == "p"]
        items = [it for it in items if it[0] != "p" and not (ps and it[0] == "x")] + ps[:1]
        if not items: items = [("c", "a")]
        return Cls(rng.random() < 0.25, items)
    return Prop(rng.choice([1, 2, 4, 8, 9, 11, 16, 17]), rng.random() < 0.2)


def gen_ast(rng, mode, depth=0):
    r = rng.random()
    if depth >= 3 or r < 0.30:
        return gen_atom(rng, mode)
    if r < 0.62:
        return Cat([gen_ast(rng, mode, depth + 1) for _ in range(rng.randrange(2, 5))])
    if r < 0.78:
        return Alt([gen_ast(rng, mode, depth + 1) for _ in range(rng.randrange(2, 4))])
    x = gen_ast(rng, mode, depth + 1)
    if isinstance(x, Rep): x = Alt([x, gen_atom(rng, mode)])
    return Rep(x, rng.choice("*+?+"))


class Pat:
    """top level: optional `^`, body, optional `$`"""
    def __init__(s, body, bol=False, eol=False): s.body, s.bol, s.eol = body, bol, eol
    def ure(s):
        b = s.body.ure()
        if isinstance(s.body, Alt) is False and (s.bol or s.eol) and _has_top_alt(s.body): b = "(" + b + ")"
        return ("^" if s.bol else "") + b + ("$" if s.eol else "")


def _has_top_alt(x):
    return False        # Alt prints its own parentheses


# ---------------------------------------------------------------------------------------------------------------------
# the independent judge
# ---------------------------------------------------------------------------------------------------------------------
def fold(s):
    return "".join(chr(ord(c) + 32) if "A" <= c <= "Z" else c for c in s)


LINE_ANCHORS = False        # set by stage() from translate/gen_ure.py: ure_exec has fixes/C17-line-anchors.diff


def expected(pat, cf, flags, text):
    """leftmost-longest non-empty match of the contract -> (ms, me) | None"""
    dot = bool(flags & 2)
    pyre = re.compile(pat.body.py(dot), re.IGNORECASE if cf else 0)
    n = len(text)
    nobol0 = noeoln = False
    if LINE_ANCHORS:
        # repaired: URE_NOTBOL = the text does not begin at a line start, URE_NOTEOL = it does not end at a line end;
        # the separators inside the text keep their meaning
        nobol0, noeoln = bool(pat.bol and flags & 4), bool(pat.eol and flags & 8)
    elif (pat.bol and flags & 4) or (pat.eol and flags & 8):
        return None             # ure_exec: URE_NOTBOL / URE_NOTEOL switch the anchor off everywhere in the text
    # an empty match only where an anchor carries it (`b*$`); a pattern that matches the empty string by itself is
    # judged on its non-empty matches (ure_exec never reports an empty match for those: W_NULLABLE)
    empty_ok = pat.body.nullable() and (pat.bol or pat.eol)
    # (an empty match at the very end of the text is only reached by `^` behind a final separator: the loop needs a
    # character)
    # repaired shape: `^` is a test in front of a CHARACTER; the position behind the last character is never examined, so
    # the "empty line" behind a final separator does not exist (search.c ends every row with a separator)
    for ms in range(n + 1 if empty_ok and pat.bol and n > 0 and not LINE_ANCHORS else n):
        if pat.bol and ms > 0 and (text[ms - 1] not in SEPS or text[ms - 1:ms + 1] == "\r\n"): continue   # CR LF = one separator
        if nobol0 and ms == 0: continue
        for me in range(n, ms - 1 if empty_ok else ms, -1):
            if noeoln and me == n: continue
            if pat.eol and me < n and (text[me] not in SEPS or (me > 0 and text[me - 1:me + 1] == "\r\n")): continue
            if pyre.fullmatch(text, ms, me) if not _needs_slice(pat) else pyre.fullmatch(text[ms:me]):
                return (ms, me)
    return None


def _needs_slice(pat):
    return False


def sym_matches(tok, c, cf, dot, brk_shape):
    """does DFA symbol `tok` of the dump take character c (after folding)?  Python re-statement for the overlap test only"""
    o = ord(c)
    def props(p):
        for bit, n in ((0, 1), (1, 2), (3, 4), (7, 8), (8, 9), (10, 11)):
            if p >> bit & 1 and re.fullmatch("[%s]" % PROPS_PY[n], c): return True
        if p >> 2 & 1 and (o < 0x20 or o == 0x7f): return True
        if p >> 4 & 1 and 0x21 <= o <= 0x7e: return True
        if p >> 5 & 1 and "a" <= c <= "z": return True
        if p >> 6 & 1 and 0x20 <= o <= 0x7e: return True
        if p >> 9 & 1 and "A" <= c <= "Z": return True
        if p >> 14 & 1: return True
        if p >> 16 & 1 and (0xee00 <= o <= 0xee7f or 0xef20 <= o <= 0xef7f): return True
        if p >> 17 & 1 and 0xf000 <= o <= 0xf7ff: return True
        return False
    if tok == "any": return True
    if tok == "bol": return False
    if tok == "eol": return c in SEPS
    if tok[0] == "c": return int(tok[1:], 16) == o
    m = re.fullmatch(r"([CN])([0-9a-f]+)\[(.*)\]", tok)
    p = int(m.group(2), 16)
    hit = (p != 0 and props(p)) or any(int(a, 16) <= o <= int(b, 16) for a, b in (r.split("-") for r in m.group(3).split(",") if r))
    return hit if m.group(1) == "C" else not hit


def overlap(dump, text, cf):
    """two different character symbols of one DFA state's transition list take the same character of the text"""
    t = dump.split()
    if len(t) < 7 or t[1] != "dfa": return False
    syms = t[t.index("S") + 1:t.index("T")]
    states = t[t.index("T") + 1:]
    chars = set(fold(text) if cf else text)
    for st in states:
        tr = st.split(":")[1]
        if tr == "-": continue
        ids = [int(x.split(">")[0]) for x in tr.split(",")]
        for c in chars:
            if sum(1 for i in ids if sym_matches(syms[i], c, cf, True, True)) > 1:
                return True
    return False


def runs_to_end(dump, text, cf, before):
    """some attempt that starts left of `before` follows the DFA (first matching transition) to the end of the text"""
    t = dump.split()
    syms = t[t.index("S") + 1:t.index("T")]
    states = [[] if st.split(":")[1] == "-" else [tuple(int(x) for x in tr.split(">")) for tr in st.split(":")[1].split(",")]
              for st in t[t.index("T") + 1:]]
    tx = fold(text) if cf else text
    for p in range(before):
        q, i = 0, p
        while i < len(tx):
            nx = next((n for s_, n in states[q] if sym_matches(syms[s_], tx[i], cf, True, True)), None)
            if nx is None: break
            q, i = nx, i + 1
        if i == len(tx) and i > p: return True
    return False


def judge(case, out, meta, shp):
    """-> None | what"""
    pat = meta.get("pat")
    dump, lit = None, None
    for op, o in zip(case, out):
        t = op.split()
        if t[0] in ("compile", "lit") and len(t) == 3:
            dump = o
            cf = t[1] == "1"
            try:
                lit = unhx(t[2]) if t[0] == "lit" and t[2] != "-" else None
            except ValueError:
                lit = None
            continue
        if t[0] != "exec" or dump is None or not dump.startswith("ok dfa"): continue
        flags, text = int(t[1]), unhx(t[2])
        if o == "ok hang":
            return W_HANG if not shp["bol_guard"] and "bol" in dump else "ure_exec hangs on %s" % op
        got = None if o == "ok none" else tuple(int(x) for x in o.split()[1:3])
        if lit is not None:
            p, tx = (fold(lit), fold(text)) if cf else (lit, text)
            i = tx.find(p)
            exp = None if i < 0 else (i, i + len(p))
            if got != exp:
                if "\ud800" <= max(p) and any("\ud800" <= c <= "\udbff" for c in p): continue
                return "ure literal search: ure_exec says %s, the leftmost occurrence is %s (%s in %s)" % (got, exp, hx(p), hx(tx))
            continue
        if pat is None: continue
        exp = expected(pat, cf, flags, text)
        if got == exp: continue
        # -- named deviations of the current source, each under its own condition ------------------------------------
        u = pat.ure()
        if pat.body.nullable() and not (pat.bol or pat.eol) and (got is None or got[0] == 0):
            return W_NULLABLE
        if not shp["issep_brk"] and ("." in re.sub(r"\\.", "", u) or "[^" in u or "\\P" in u) and \
                any(c in SEPS or ord(c) & 0x4000 for c in text):
            return W_DOT
        if re.search(r":(gfx|graph|drcs):", u) and shp["colon_min"] == 6:
            return W_POSIX
        if overlap(dump, text, cf):
            return W_OVERLAP
        if not shp["eot_restart"] and got is None and exp is not None and not (pat.bol or pat.eol) and \
                runs_to_end(dump, text, cf, exp[0]):
            return W_EOT
        if not shp["line_anchors"] and pat.eol and exp is not None and got is not None and got[0] == exp[0] and got[1] == exp[1] + 1 == len(text):
            return W_EOLEND
        if not shp["line_anchors"] and pat.eol and (flags & 8) and got is not None and got[1] == len(text):
            return W_EOLEND
        if not shp["line_anchors"] and pat.bol and exp is not None and exp[0] >= 1 and (exp[0] == 1 or text[exp[0] - 2] in SEPS) and \
                (got is None or got[0] > exp[0]):
            return W_BOLSKIP
        return "ure regular expression %s (casefold %d, flags %d): ure_exec says %s, leftmost-longest is %s in %s" % (
            hx(u), cf, flags, got, exp, hx(text))
    return None


# ---------------------------------------------------------------------------------------------------------------------
# generator
# ---------------------------------------------------------------------------------------------------------------------
MALFORMED = ["(", ")", "a)", "(a", "((a)", "|a", "a|", "a||b", "()", "()a", "(*)", "(|)", "a**", "a+*?", "[", "[a", "[a-", "[^",
             "[]", "[^]", "[]a]", "[a-]", "[-a]", "[z-a]", "\\", "a\\", "[\\", "[a\\", "\\p", "\\p0", "\\p99", "\\p33", "\\p1,",
             "\\p1,2,40", "\\p,", "\\p1,,2", "[\\p33]", "[\\p17,18]", "[\\P1]", "\\P2", "\\p12", "\\p15", "\\x", "\\xZ", "\\x12345",
             "\\u0041\\X62", "[\\x61-\\x63]", "[:alpha:]", "[:gfx:]", "[:graph:]", "[:drcs:]", "[:drcs:", "[:drcs:]x", "[[:digit:]]",
             "[:alpha", "[:alnum:][:cntrl:][:lower:][:print:][:punct:][:space:][:upper:][:xdigit:][:title:]", "[:foo:]", "[:::::::]",
             "*a", "+a", "?a", "*", "a(*)", "$a", "a^", "^$", "^", "$", "a$b", "𐀀", "[𐀀]", "[\ud800-\udbff]",
             "[\ud800-a]", "\ud800\\xdc00", "\ud800\\x41", "\ud800\\", "\ud800", "[\ud800", "[\ud800\\xdc00]", "a{2}", "\\n\\t\\a\\b\\f\\r\\v",
             "[\\n\\t\\a]", "\\(\\)\\|", "(a|b)*abb", "((a))", "(a)(b)", "(a|)", "(|a)", "a|b|c", "ĀŁ", "\\Ā"]
BOLLOOPS = ["^+", "^*a", "(^)+a", "(^^)*b"]


def gen_texts(rng, pat, cf):
    alpha = "abcx01 " + ("ABX" if cf else "") + rng.choice(["", "\n", "\n", "", ".:"])
    noise = lambda n: "".join(rng.choice(alpha) for _ in range(n))
    out = []
    for _ in range(rng.randrange(2, 5)):
        s = pat.body.sample(rng)
        if cf: s = "".join(c.upper() if rng.random() < 0.4 else c for c in s)
        k = rng.randrange(9)
        if k == 0: t = noise(rng.randrange(0, 6)) + s + noise(rng.randrange(0, 6))
        elif k == 1: t = s + noise(rng.randrange(0, 5))
        elif k == 2: t = noise(rng.randrange(0, 5)) + s
        elif k == 3: t = noise(rng.randrange(0, 4)) + "\n" + s + "\n" + noise(rng.randrange(0, 4))
        elif k == 4 and s:
            i = rng.randrange(len(s)); t = noise(2) + s[:i] + rng.choice(alpha) + s[i + 1:] + noise(2)      # near miss
        elif k == 5 and len(s) > 1:
            i = rng.randrange(1, len(s)); t = noise(1) + s[:i] + s + noise(1)                                # border
        elif k == 6 and len(s) > 1:
            i = rng.randrange(1, len(s)); t = noise(2) + s[:i] + "\n" + s[i:] + noise(2)                     # across the row separator
        elif k == 7: t = noise(rng.randrange(0, 12))
        else: t = noise(2) + s + rng.choice(["\n", "\r\n", "\n\n", ""]) + s[:max(0, len(s) - 1)] + noise(1) + "\n"
        out.append(t[:60])
    return out


def gen_cases(rng, tier):
    """-> list of (ops, kind, meta)"""
    n = 420 if tier == "quick" else 6000
    cases = []
    for i in range(n):
        r = rng.random()
        if r < 0.50:
            mode = "disjoint" if rng.random() < 0.75 else "any"
            body = gen_ast(rng, mode)
            if body.size() > 14: body = gen_atom(rng, mode)
            a = rng.random()
            pat = Pat(body, bol=a < 0.12, eol=0.08 < a < 0.2)
            cf = rng.random() < 0.3
            ops = ["compile %d %s" % (cf, hx(pat.ure()))]
            for t in gen_texts(rng, pat, cf):
                fl = rng.choice([0, 0, 0, 0, 2, 4, 8, 12, 6])
                ops.append("exec %d %s" % (fl, hx(t)))
            cases.append((ops, "regex-" + mode + ("-anchored" if pat.bol or pat.eol else ""), {"pat": pat}))
        elif r < 0.68:
            # literal search as vbi_search_new (regexp = FALSE) escapes it
            alpha = rng.choice(["ab", "abc", "a.b", "01:", "ab*(", "aA", "éa"])
            L = rng.randrange(1, 6)
            p = "".join(rng.choice(alpha) for _ in range(L))
            cf = rng.random() < 0.4
            ops = ["lit %d %s" % (cf, hx(p))]
            for _ in range(rng.randrange(1, 4)):
                k = rng.randrange(5)
                nz = lambda m: "".join(rng.choice(alpha + " \n" + (alpha.upper() if cf else "")) for _ in range(m))
                if k == 0: t = nz(rng.randrange(0, 8)) + p + nz(rng.randrange(0, 4))
                elif k == 1: t = nz(3) + p[:-1] + p + nz(2)
                elif k == 2: t = nz(2) + p[:len(p) // 2] + "\n" + p[len(p) // 2:]
                elif k == 3: t = nz(rng.randrange(0, 14))
                else: t = (p[:-1]) * 3 + p
                if cf: t = "".join(c.upper() if rng.random() < 0.3 else c for c in t)
                ops.append("exec %d %s" % (rng.choice([0, 0, 4, 8]), hx(t)))
            cases.append((ops, "literal", {"lit": p}))
        elif r < 0.905:
            # malformed / odd patterns: correspondence (and the predicted faults) only
            ops = []
            for _ in range(rng.randrange(1, 4)):
                if rng.random() < 0.6: p = rng.choice(MALFORMED)
                else: p = "".join(rng.choice("ab()|*+?[]^$\\.-:p1,xdrcsgf") for _ in range(rng.randrange(1, 12)))
                if re.search(r"\^\)?[*+]|\(\^+\)[*+]", p): p = p.replace("^", "a")          # `^` loops: corpus + BOLLOOPS only
                ops.append("compile %d %s" % (rng.random() < 0.3, hx(p)))
                if rng.random() < 0.7:
                    ops.append("exec %d %s" % (rng.choice([0, 2, 4, 8]), hx("".join(rng.choice("ab\n x1[:") for _ in range(rng.randrange(0, 9))))))
            cases.append((ops, "malformed", {}))
        elif r < 0.915:
            # a long alternative and a short one inside it; the text ends inside the long one (C17-U7)
            w = rng.choice(["abc", "xyz", "bca", "a01b", "cab"])
            pat = Pat(Alt([Cat([Lit(c) for c in w]), Lit(w[1])]))
            k = rng.randrange(2, len(w))
            ops = ["compile 0 " + hx(pat.ure()), "exec 0 " + hx(rng.choice(["", "q", "qq "]) + w[:k]),
                   "exec 0 " + hx("q" + w[:k] + "q"), "exec 0 " + hx(w[:k] + w)]
            cases.append((ops, "regex-eot", {"pat": pat}))
        elif r < 0.92:
            p = rng.choice(BOLLOOPS)
            cases.append((["compile 0 " + hx(p), "exec 4 " + hx("ab"), "exec 0 " + hx(rng.choice(["ab", "\nb", "b"]))], "bol-loop", {}))
        else:
            # odd protocol lines and odd characters
            ops = [rng.choice(["compile 2 0061", "compile 0 -", "compile 0 006", "compile x 0061", "exec 0 0061", "lit 0 -",
                               "exec 16 0061", "foo", "compile 0 0000", "compile 0 00610000", "compile 1 00c9", "compile 0 0061 0062"])]
            ops.append("compile %d %s" % (rng.random() < 0.5, hx("".join(chr(rng.choice([0x41, 0x61, 0xe9, 0xc9, 0x2028, 0xee21, 0xffff, 0x4001, 0x0a, 0x5c]))
                                                                        for _ in range(rng.randrange(1, 5))))))
            ops.append("exec %d %s" % (rng.choice([0, 2]), hx("".join(chr(rng.choice([0x41, 0x61, 0xe9, 0xc9, 0x2028, 0xee21, 0xffff, 0x4001, 0x0a, 0x0d]))
                                                                    for _ in range(rng.randrange(0, 8))))))
            cases.append((ops, "odd", {}))
    return cases


def is_ure_case(lines):
    return bool(lines) and lines[0].split()[0] in ("compile", "lit", "exec")


# ---------------------------------------------------------------------------------------------------------------------
# the stage
# ---------------------------------------------------------------------------------------------------------------------
FAULT_SAN = {"fault oob cclass_trie": ("global-buffer-overflow", "_ure_posix_ccl", W_TRIE),
             "fault oob pattern": ("heap-buffer-overflow", "_ure_c", W_PAT)}


def stage(ctx, counts=None, only=None):
    t0 = time.time()
    counts = counts if counts is not None else {}
    sys.path.insert(0, os.path.join(verif.VERIF, "translate"))
    import gen_ure
    try:
        shp = gen_ure.flags(verif.REPO)
    except SystemExit as ex:
        return [("ure: translator does not recognise src/ure.c: %s" % ex, [])]
    global LINE_ANCHORS
    LINE_ANCHORS = bool(shp.get("line_anchors"))
    exe, err = verif.build_harness("ure_harness", link_lib=False)
    if exe is None:
        return [("ure harness build failed: " + err[-400:], [])]
    tier, rng = ctx["tier"], ctx["rng"]
    cases, kinds, metas = [], [], []
    if only is not None:
        cases, kinds, metas = list(only), ["replay"] * len(only), [{}] * len(only)
    else:
        for f, lines in verif.corpus_cases("C17"):
            if f.startswith("ure-") and is_ure_case(lines):
                cases.append(lines); kinds.append("corpus:" + f); metas.append({})
        for ops, k, m in gen_cases(rng, tier):
            cases.append(ops); kinds.append(k); metas.append(m)
    mcmd = (ctx.get("mcmd") or [verif.model_exe()])[:1] + ["ure"]
    mout, minc = verif.run_side(mcmd, cases, 5.0)
    out = [("ure: model driver %s" % x["kind"], cases[x["case"]]) for x in minc[:3]]
    # a fault the model predicts is a crash of the real code: confirm each kind a few times, skip the rest
    run_idx, skipped, seen = [], 0, {}
    for i, c in enumerate(cases):
        f = next((l for l in mout.get(i, []) if l.startswith("fault")), None)
        if f and not kinds[i].startswith(("corpus", "replay")):
            seen[f] = seen.get(f, 0) + 1
            if seen[f] > 3:
                skipped += 1
                continue
        run_idx.append(i)
    sub = [cases[i] for i in run_idx]
    iout, iinc = verif.run_side([exe], sub, 5.0)
    inc = {x["case"]: x for x in iinc}
    validated = disagreements = oracle_runs = oracle_execs = clean = 0
    hist, faults, named = {}, {}, {}
    for j, i in enumerate(run_idx):
        c, m, o = cases[i], mout.get(i, []), iout.get(j, [])
        k = kinds[i].split(":")[0]
        hist[k] = hist.get(k, 0) + 1
        f = next((n for n, l in enumerate(m) if l.startswith("fault")), None)
        if j in inc:
            det = inc[j]["detail"]
            exp = FAULT_SAN.get(m[f]) if f is not None else None
            if exp and o[:f] == m[:f] and len(o) == f and exp[0] in det and exp[1] in det:
                validated += 1
                faults[m[f]] = faults.get(m[f], 0) + 1
                out.append((exp[2], c))
            else:
                disagreements += 1
                out.append(("ure: %s of the real code (%s) [model: %s]" % (inc[j]["kind"], verif.summarize_san(det)[:160],
                                                                            m[f] if f is not None else "no fault predicted"), c))
            continue
        if f is not None:
            disagreements += 1
            out.append(("ure correspondence model~code: the model predicts `%s`, the real code ran on" % m[f], c))
            continue
        d = verif.first_diff(o, m)
        if d is not None:
            disagreements += 1
            if disagreements <= 5:
                out.append(("ure correspondence model~code: op#%d impl `%s` model `%s`" % (d[0], d[1][:100], d[2][:100]), c))
            continue
        validated += 1
        oracle_runs += 1
        oracle_execs += sum(1 for l in c if l.startswith("exec"))
        meta = metas[i]
        if not meta and k in ("corpus", "replay"):
            meta = meta_of_ops(c)
        w = judge(c, o, meta, shp)
        if w is None:
            clean += 1
        else:
            named[w[:40]] = named.get(w[:40], 0) + 1
            out.append((w, c))
    counts.update({"cases": len(cases), "run_on_real_code": len(sub), "skipped_repeated_predicted_fault": skipped,
                   "traces_validated_against_impl": validated, "correspondence_disagreements": disagreements,
                   "oracle_runs": oracle_runs, "oracle_exec_ops": oracle_execs, "oracle_cases_without_deviation": clean,
                   "deviations_by_name": named, "input_distribution": hist,
                   "model_predicted_faults_confirmed_by_sanitizer": faults, "source_shape": shp,
                   "wall_s": round(time.time() - t0, 1)})
    uniq, res = set(), []
    for w, c in out:
        sg = re.sub(r"[0-9a-f]+\.[0-9a-f]+|\d+", "N", w)[:120]
        if sg not in uniq:
            uniq.add(sg)
            res.append((w, c))
    return res


def meta_of_ops(c):
    """corpus / replay cases: a `lit` case is judged as literal search; regular expressions only by the correspondence"""
    t = c[0].split()
    if t[0] == "lit" and len(t) == 3:
        try:
            return {"lit": unhx(t[2])}
        except ValueError:
            return {}
    return {}
