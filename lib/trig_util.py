"""Generator, sender and oracle helpers for the trigger stream of C01 (harness/trig_harness.c, lean/Driver/Trig.lean).

sender:    Trig (url, attributes) -> EACEM / ATVEF trigger text with a correct checksum (RFC 1071 sum as trigger.c
           verify_checksum() accepts it), special characters %-escaped
generator: gen_case(rng) -> (ops, expectations); kinds: well-formed (all attributes, all keyword spellings and one-letter
           abbreviations, date / time forms, all view / type / priority / autoload values), near-miss (one deletion /
           insertion / swap / replaced byte), malformed (random bytes, very long values, 255-byte lines, missing
           terminators, nested brackets, huge numbers), list histories (deferred triggers, ticks, duplicates, deletes,
           flush), ITV caption text (itv op)
oracle:    judge(case, out, expect) -> None | what fails   (only from the real code's output)"""
import re

E_ATTRS = ["active", "countdown", "delete", "expires", "name", "priority", "script"]
A_ATTRS = ["auto", "expires", "name", "script", "type", "time", "tve", "tve-level", "view"]
TYPES = ["program", "network", "station", "sponsor", "operator", "tve"]
LINK_HTTP, LINK_LID, LINK_TELEWEB, LINK_MESSAGE, LINK_PAGE = 4, 7, 8, 1, 2
SPECIAL = set(b'%[]():"<>')


def hx(b):
    return bytes(b).hex() if len(b) else "-"


def checksum(prefix, variant=0):
    """the 4-digit value which makes verify_checksum (prefix, len, value) true; variant 1: the left-over byte added
    unshifted (the `wrong` reading trigger.c also accepts)"""
    s = 0
    b = bytes(prefix)
    for i in range(0, len(b) - 1, 2):
        s += (b[i] << 8) + b[i + 1]
    if len(b) % 2:
        s += b[-1] << (8 if variant == 0 else 0)
    while s >= 1 << 16:
        s = (s & 0xFFFF) + (s >> 16)
    return 0xFFFF - s


def esc(b, rng=None, extra=0.0):
    out = bytearray()
    for c in bytes(b):
        if c in SPECIAL or c < 0x20 or (rng and rng.random() < extra):
            out += b"%%%02X" % c if not rng or rng.random() < 0.5 else b"%%%02x" % c
        else:
            out.append(c)
    return bytes(out)


def spell(rng, kw):
    k = rng.random()
    if k < 0.3:
        return kw[:1].encode()
    if k < 0.4:
        return kw[:1].upper().encode()
    if k < 0.7:
        return kw.encode()
    if k < 0.85:
        return kw.upper().encode()
    return "".join(c.upper() if rng.random() < 0.5 else c for c in kw).encode()


def date_text(rng):
    y = rng.choice([1969, 1970, 1971, 1999, 2000, 2001, 2024, 2038, 2100, 0, 9999, rng.randrange(10000)])
    mo = rng.choice([0, 1, 2, 11, 12, 13, 99, rng.randrange(100)])
    d = rng.choice([0, 1, 28, 29, 30, 31, 32, 99, rng.randrange(100)])
    s = "%04d%02d%02d" % (y, mo, d)
    k = rng.random()
    if k < 0.4:
        return s.encode()
    s += "T%02d%02d" % (rng.choice([0, 23, 24, 99, rng.randrange(100)]), rng.choice([0, 59, 60, 99, rng.randrange(100)]))
    if k < 0.7:
        return s.encode()
    return (s + "%02d" % rng.choice([0, 59, 60, 61, 99, rng.randrange(100)])).encode()


def time_text(rng, small=True):
    n = rng.choice([0, 1, 2, 3, 10, 25, 100, rng.randrange(200)]) if small else \
        rng.choice([85899340, 85899341, 85899342, 85899345, 85899346, 2147483647, 4294967295, 4294967296, 99999999999,
                    18446744073709551615, 18446744073709551616, 10 ** 30, rng.randrange(1 << 40)])
    s = "%d" % n
    if rng.random() < 0.1:
        s = rng.choice([" ", "+", "-", "  +", "\t"]) + s
    if rng.random() < 0.4:
        s += "F%02d" % rng.choice([0, 1, 12, 24, 25, 99])
    return s.encode()


def rand_text(rng, n, alphabet=None):
    alphabet = alphabet or b"abcdefghijklmnopqrstuvwxyzABCDEFGHIJKLMNOPQRSTUVWXYZ0123456789 .,-_/!?'*"
    return bytes(rng.choice(alphabet) for _ in range(n))


def url_text(rng, eacem):
    k = rng.random()
    host = rand_text(rng, rng.randrange(1, 20), b"abcdefghijklmnopqrstuvwxyz0123456789./-_~")
    if k < 0.55:
        return b"http://" + host
    if k < 0.62:
        return b"lid://" + host
    if k < 0.66:
        return b"http://" + host + b"*"
    if not eacem:
        return rng.choice([b"ftp://", b"tw://", b"HTTP://", b"http:/", b""]) + host
    if k < 0.72:
        return b"tw://" + host
    if k < 0.8:
        return b"dummy%02d" % rng.randrange(100) + rng.choice([b"", b"", b"x", b"3"])
    if k < 0.97:
        cni = rng.choice([0, 0, 0x4301, 0x0ac1, 0x0dc1, 0x2c7f, 0xffff, rng.randrange(0x10000)])
        pg = rng.choice([0x100, 0x0ff, 0x899, 0x8ff, 0xfff, rng.randrange(0x1000)])
        fmt = rng.choice(["ttx://%04x/%03x/%04x", "ttx://%04X/%03X/%04X"])
        u = (fmt % (cni, pg, rng.randrange(0x10000))).encode()
        if rng.random() < 0.15:
            u = u[:rng.randrange(6, len(u))]
        if rng.random() < 0.1:
            u += b"x"
        return u
    return rng.choice([b"ftp://", b"", b"dumm", b"ttx:/"]) + host


class Trig:
    def __init__(self, eacem, url, attrs):
        self.eacem, self.url, self.attrs = eacem, url, attrs     # attrs: list of (name bytes, value bytes or None, delim)

    def body(self):
        out = b"<" + self.url + b">"
        for n, v, dl in self.attrs:
            o, c = (b"[", b"]") if dl == 0 else (b"(", b")")
            out += o + n + (b":" + v if v is not None else b"") + c
        return out

    def text(self, chk=True, variant=0, bad=False, delim=0):
        b = self.body()
        if chk:
            v = checksum(b, variant)
            if bad:
                v ^= 1 << (len(b) % 16)
            o, c = (b"[", b"]") if delim == 0 else (b"(", b")")
            b += o + (b"%04X" % v) + c
        return b


def wf_eacem(rng, defer=None):
    """-> (Trig, expectation dict or None)"""
    url = url_text(rng, True)
    attrs, exp = [], {"url": url, "name": b"", "script": b""}
    dl = 0 if rng.random() < 0.8 else 1
    names = rng.sample(E_ATTRS, rng.randrange(0, 5))
    if defer is not None:
        names = [n for n in names if n != "countdown"] + ["countdown"]
    simple = True
    for n in names:
        if n == "active":
            v = time_text(rng)
            if b"-" in v:
                simple = False
        elif n == "countdown":
            v = b"%d" % defer if defer is not None else time_text(rng)
            simple = False
        elif n == "delete":
            v = rng.choice([b"", b"1", b"x"])
            simple = False
        elif n == "expires":
            v = date_text(rng)
            simple = False      # may be rejected (1969-12-31T23:59:59) - judged by the model only
        elif n == "name":
            raw = rand_text(rng, rng.choice([0, 1, 5, 20, 77, 78, 79, 80, 100]))
            v = esc(raw, rng, 0.05)
            exp["name"] = raw[:78]
        elif n == "priority":
            v = b"%d" % rng.choice([0, 1, 5, 9, 9, 10, 11, 4294967295, 4294967296 + 3])
            iv = int(v) % (1 << 32)
            if (iv - (1 << 32) if iv >= 1 << 31 else iv) > 9:
                simple = False
        else:
            raw = rand_text(rng, rng.choice([0, 3, 40, 200, 230]))
            v = esc(raw, rng, 0.02)
            exp["script"] = raw[:254]
        attrs.append((spell(rng, n), v, dl))
    t = Trig(True, url, attrs)
    ok = simple and url.startswith(b"http://") and all(len(a[0]) + len(a[1] or b"") < 200 for a in attrs) \
        and len(set(a[0][:1].lower() for a in attrs)) == len(attrs)
    return t, (exp if ok else None)


def wf_atvef(rng):
    url = url_text(rng, False)
    attrs, exp = [], {"url": url, "name": b"", "script": b""}
    simple = True
    for n in rng.sample(A_ATTRS, rng.randrange(0, 6)):
        if n == "auto":
            v = rng.choice([b"1", b"0", b"true", b"TRUE", b"True", b"false", b"yes", b"11", b""])
        elif n in ("expires", "time"):
            v = date_text(rng)
            simple = False
        elif n == "name":
            raw = rand_text(rng, rng.choice([0, 1, 5, 20, 77, 78, 79, 80, 100]))
            v = esc(raw, rng, 0.05)
            exp["name"] = raw[:78]
        elif n == "script":
            raw = rand_text(rng, rng.choice([0, 3, 40, 200, 230]))
            v = esc(raw, rng, 0.02)
            exp["script"] = raw[:255]
        elif n == "type":
            v = spell(rng, rng.choice(TYPES)) if rng.random() < 0.9 else rand_text(rng, 3)
        elif n == "view":
            v = rng.choice([b"w", b"web", b"t", b"tv", b"W", b"", b"x"])
            if v[:1] == b"t":
                simple = False
        else:
            v = rng.choice([b"1", b"1.0", b"", b"x"])
        nm = spell(rng, n)
        if n in ("time", "tve", "tve-level") and len(nm) == 1:
            nm = n.encode()         # `t` alone is `type`
        attrs.append((nm, v, 0))
    if rng.random() < 0.15:
        attrs.insert(rng.randrange(len(attrs) + 1), (spell(rng, rng.choice(TYPES[1:5]))[:] if rng.random() < 0.8 else b"program", None, 0))
        simple = False
    t = Trig(False, url, attrs)
    ok = simple and url.startswith(b"http://") and b"*" not in url and all(len(a[0]) + len(a[1] or b"") < 200 for a in attrs) \
        and len(set((a[0][:1].lower() if len(a[0]) == 1 else a[0].lower()) for a in attrs)) == len(attrs) \
        and not any(a[1] is None for a in attrs)
    return t, (exp if ok else None)


def near_miss(rng, b):
    b = bytearray(b)
    if not b:
        return bytes(b)
    for _ in range(rng.choice([1, 1, 1, 2])):
        if not b:
            break
        k, i = rng.randrange(5), rng.randrange(len(b))
        if k == 0 and len(b) > 1:
            del b[i]
        elif k == 1:
            b.insert(i, rng.choice(b'<>[]():%"\\ 0aF') if rng.random() < 0.8 else rng.randrange(1, 256))
        elif k == 2 and i + 1 < len(b):
            b[i], b[i + 1] = b[i + 1], b[i]
        elif k == 3:
            b[i] = rng.choice(b'<>[]():%" ') if rng.random() < 0.7 else rng.randrange(1, 256)
        else:
            del b[i:]           # truncated: missing terminators
    return bytes(b)


def malformed(rng):
    k = rng.randrange(12)
    if k == 0:
        return bytes(rng.randrange(1, 256) for _ in range(rng.choice([1, 2, 10, 100, 255, 300, 1000])))
    if k == 1:      # 255-byte line without any NUL or delimiter
        return b"<" + rand_text(rng, rng.choice([252, 253, 254, 255, 256, 257, 300]))
    if k == 2:      # url exactly around the limit
        return b"<http://" + rand_text(rng, rng.choice([245, 246, 247, 248, 249, 250, 260]), b"ab") + b">" + rng.choice([b"", b"[n:x]"])
    if k == 3:      # attribute name / value around the buffer limit
        n = rng.choice([250, 251, 252, 253, 254, 255, 256, 300])
        a = rng.randrange(1, n)
        return b"<http://a>[" + rand_text(rng, a, b"xyz") + b":" + rand_text(rng, n - a, b"xyz") + rng.choice([b"]", b""])
    if k == 4:      # unterminated things
        return rng.choice([b"<", b"<http://a", b"<http://a>[", b"<http://a>[n", b"<http://a>[n:", b"<http://a>[n:abc",
                           b"<http://a>(n:abc]", b"<http://a>[n:%", b"<http://a>[n:%4", b"<http://a>[%", b"<http://a>[%4",
                           b'<http://a>[n:"', b'<http://a>[n:"abc', b'<http://a>[n:abc"', b'<http://a>[n:""', b'<http://a>[n:"]',
                           b'<http://a>[n:"]"]', b"<http://a>[network]", b"<http://a>[station]x", b"<http://a>[sponsor][n:a]",
                           b"<http://a>[operator]", b"<http://a>[program]", b"<http://a>[tve]"])
    if k == 5:      # nested brackets
        return b"<http://a>" + b"[" * rng.randrange(1, 40) + rand_text(rng, 3) + b"]" * rng.randrange(0, 40)
    if k == 6:      # huge numbers
        return b"<http://a>[" + rng.choice([b"active", b"countdown", b"a", b"c", b"priority", b"p"]) + b":" + time_text(rng, False) + b"]"
    if k == 7:      # quotes
        s = bytearray(b"<http://a>[n:")
        for _ in range(rng.randrange(1, 12)):
            s += rng.choice([b'"', b'"', b"]", b"a", b"%22", b"%5D", b":", b"["])
        return bytes(s) + rng.choice([b"]", b'"]', b""])
    if k == 8:      # escapes
        s = bytearray(b"<http://a>[")
        for _ in range(rng.randrange(1, 8)):
            s += rng.choice([b"%41", b"%7e", b"%1F", b"%20", b"%00", b"%FF", b"%fg", b"%G0", b"%", b"%%", b"%3A", b"%5d", b"n"])
        return bytes(s) + rng.choice([b":x]", b"]", b""])
    if k == 9:      # high bytes everywhere
        return b"<http://" + bytes(rng.randrange(0x80, 0x100) for _ in range(rng.randrange(1, 8))) + b">[" + \
            bytes(rng.randrange(0x80, 0x100) for _ in range(rng.randrange(1, 4))) + b":" + \
            bytes(rng.randrange(0x80, 0x100) for _ in range(rng.randrange(0, 4))) + b"]" + rng.choice([b"", b"[FFFF]", b"[-1]", b"[0x12]"])
    if k == 10:     # checksum spellings
        body = b"<http://a.b>[n:x]"
        v = checksum(body)
        return body + b"[" + rng.choice([b"%x" % v, b"%X" % v, b"0x%x" % v, b"0X%X" % v, b" %x" % v, b"+%x" % v, b"%08x" % v,
                                         b"-%x" % (0x10000 - v if v else 0), b"%x" % (v + 0xFFFF), b"%xg" % v, b"g", b"0x", b"FFFFFFFFFFFFFFFFF"]) + b"]"
    return rand_text(rng, rng.randrange(0, 30), b'<>[]():%"aF0T ')


def gen_case(rng):
    """-> (ops, expect) ; expect: dict op index -> list of expected events [(url, name, script)] for immediate triggers"""
    ops, expect = [], {}
    kind = rng.choice(["wf-e", "wf-e", "wf-a", "wf-a", "near", "near", "mal", "mal", "list", "list", "itv", "multi"])
    now = rng.choice([0, 1, 100, 1000000, 1700000000])
    if now or rng.random() < 0.3:
        ops.append("time %d" % now)
    if rng.random() < 0.1:
        ops.append("nuid %08x" % rng.randrange(1 << 32))
    if kind == "wf-e":
        for _ in range(rng.randrange(1, 4)):
            t, exp = wf_eacem(rng)
            k = rng.random()
            txt = t.text(chk=k < 0.8, variant=rng.randrange(2), bad=k < 0.08, delim=0 if rng.random() < 0.9 else 1)
            if exp is not None:
                expect[len(ops)] = [] if k < 0.08 else [(exp["url"], exp["name"], exp["script"], LINK_HTTP)]
            ops.append("eacem " + hx(txt))
    elif kind == "wf-a":
        for _ in range(rng.randrange(1, 4)):
            t, exp = wf_atvef(rng)
            k = rng.random()
            txt = t.text(chk=k < 0.8, variant=rng.randrange(2), bad=k < 0.08)
            if exp is not None:
                expect[len(ops)] = [] if k < 0.08 else [(exp["url"], exp["name"], exp["script"], LINK_HTTP)]
            ops.append(("atvef " if rng.random() < 0.9 else "eacem ") + hx(txt))
            if ops[-1].startswith("eacem"):
                expect.pop(len(ops) - 1, None)
    elif kind == "multi":
        txt = b""
        for _ in range(rng.randrange(2, 5)):
            t, _e = wf_eacem(rng, defer=rng.choice([None, None, 50, 500]))
            txt += t.text(chk=rng.random() < 0.9)
            if rng.random() < 0.1:
                txt += rng.choice([b" ", b"x", b"["])
        ops.append("eacem " + hx(txt))
        if rng.random() < 0.5:
            ops.append("flush")
    elif kind == "near":
        for _ in range(rng.randrange(1, 4)):
            e = rng.random() < 0.5
            t, _e = (wf_eacem(rng) if e else wf_atvef(rng))
            ops.append(("eacem " if e else "atvef ") + hx(near_miss(rng, t.text(chk=rng.random() < 0.7))))
    elif kind == "mal":
        for _ in range(rng.randrange(1, 4)):
            ops.append(rng.choice(["eacem ", "atvef "]) + hx(malformed(rng)))
    elif kind == "list":
        urls = [b"http://" + rand_text(rng, 3, b"abc") for _ in range(3)]
        for _ in range(rng.randrange(2, 10)):
            k = rng.random()
            if k < 0.45:
                u = rng.choice(urls)
                a = [(b"countdown", b"%d" % rng.choice([0, 1, 2, 3, 25, 50, 51, 52, 53, 75, 250]), 0)]
                if rng.random() < 0.2:
                    a.append((rng.choice([b"delete", b"d"]), b"", 0))
                if rng.random() < 0.3:
                    a.append((b"n", rand_text(rng, 4), 0))
                rng.shuffle(a)
                ops.append("eacem " + hx(Trig(True, u, a).text(chk=rng.random() < 0.5)))
            elif k < 0.6:
                u = rng.choice(urls)
                y = rng.choice([1970, 1970, 2024])
                a = [(b"time", b"%04d0101T0000%02d" % (y, rng.randrange(0, 8)), 0)]
                ops.append("atvef " + hx(Trig(False, u, a).text(chk=rng.random() < 0.5)))
            elif k < 0.85:
                now += rng.choice([0, 1, 1, 2, 3, 10])
                ops.append("%s %d" % (rng.choice(["tick", "tick", "tick", "time"]), now))
            elif k < 0.93:
                ops.append("flush")
            else:
                ops.append("tick %d" % max(0, now - rng.randrange(5)))
    else:   # itv: caption text channel bytes, control codes / CR end a string, `<` starts a new one
        s = bytearray()
        for _ in range(rng.randrange(1, 5)):
            k = rng.random()
            if k < 0.5:
                t, _e = wf_atvef(rng)
                s += t.text(chk=rng.random() < 0.8)
            elif k < 0.7:
                s += near_miss(rng, wf_atvef(rng)[0].text())
            elif k < 0.85:
                s += rand_text(rng, rng.choice([1, 10, 200, 253, 254, 255, 256, 257, 300, 600]), b"abc[]:% ")
            else:
                s += malformed(rng)
            if rng.random() < 0.7:
                s += bytes([rng.choice([0x0d, 0x00, 0x1f, 0x80, 0xff, 0x0a])])
            if rng.random() < 0.2:
                ops.append("itv " + hx(s))
                s = bytearray()
        ops.append("itv " + hx(s))
        if rng.random() < 0.5:
            ops.append("itv 0d")
    if rng.random() < 0.3:
        ops.append("tick %d" % (now + rng.choice([0, 1, 5, 1000])))
    if rng.random() < 0.5:
        ops.append(rng.choice(["flush", "delete", "delete"]))
    return ops, expect, kind


# ---------------------------------------------------------------------------------------------------------------------
EV = re.compile(r"^E:([0-9a-f]+):([0-9a-f]+):([0-9a-f!-]+):([0-9a-f!-]+):([0-9a-f!-]+):([0-9a-f.-]+):(-?\d+):([0-9a-f]+):([0-9a-f]+):([0-9a-f]+)$")
ND = re.compile(r"^N:([0-9a-f!-]+):(-?\d+)$")


def unhex(s):
    return b"" if s == "-" else bytes.fromhex(s.rstrip("!"))


def parse_out(line):
    """`ok E:.. | N:.. | live=n [cnt=k]` -> (events, nodes, live, cnt) or None"""
    if not line.startswith("ok ") and line != "ok":
        return None
    parts = line[2:].split("|")
    if len(parts) != 3:
        return None
    evs, nodes = [], []
    for w in parts[0].split():
        m = EV.match(w)
        if not m:
            return None
        evs.append(m.groups())
    for w in parts[1].split():
        m = ND.match(w)
        if not m:
            return None
        nodes.append((m.group(1), int(m.group(2))))
    m = re.match(r"^ live=(-?\d+)(?: cnt=(-?\d+))?$", parts[2])
    if not m:
        return None
    return evs, nodes, int(m.group(1)), (int(m.group(2)) if m.group(2) is not None else None)


def judge(case, out, expect=None):
    """the safety / book-keeping property and (where the generator knows what it sent) the round trip, from the real
    code's output only"""
    if len(out) != len(case):
        return "trig: harness did not answer every op (%d of %d)" % (len(out), len(case))
    time = 0
    for i, (op, o) in enumerate(zip(case, out)):
        w = op.split()
        if o.startswith("rej"):
            continue
        if w[0] in ("time", "tick") and len(w) == 2 and w[1].isdigit():
            time = int(w[1])
        if w[0] == "delete":
            if o != "ok live=0":
                return "trig: trigger nodes not released at delete: " + o
            continue
        if w[0] in ("nuid", "extents"):
            continue
        p = parse_out(o)
        if p is None:
            return "trig: unreadable output: " + o[:80]
        evs, nodes, live, cnt = p
        for e in evs:
            if "!" in e[2] or "!" in e[3] or "!" in e[4]:
                return "trig: fired link with a string that is not NUL-terminated (uninitialised trigger node)"
            if len(unhex(e[2])) > 79 or len(unhex(e[3])) > 255 or len(unhex(e[4])) > 255:
                return "trig: fired link string longer than its array"
        for u, f in nodes:
            if "!" in u:
                return "trig: list node with an url that is not NUL-terminated (uninitialised trigger node)"
        if live != len(nodes):
            return "trig: %d live allocations but %d list nodes" % (live, len(nodes))
        if w[0] == "flush" and (nodes or live):
            return "trig: list not empty after vbi_trigger_flush"
        if w[0] == "tick" and any(f <= time * 25 for _u, f in nodes):
            return "trig: a trigger whose fire time has passed stays in the list after vbi_deferred_trigger"
        for a in range(len(nodes)):
            for b in range(a + 1, len(nodes)):
                if nodes[a][0] == nodes[b][0] and abs(nodes[a][1] - nodes[b][1]) <= 2:
                    return "trig: duplicate trigger in the list"
        if cnt is not None and not (0 <= cnt <= 255):
            return "trig: itv_count %d outside 0..255" % cnt
        if expect and i in expect:
            got = [(unhex(e[3]), unhex(e[2]), unhex(e[4]), int(e[0], 16)) for e in evs]
            want = [(u, n, s, t) for (u, n, s, t) in expect[i]]
            if got != want:
                if want and not got:
                    return "trig: well-formed trigger with a correct checksum was dropped"
                if got and not want:
                    return "trig: trigger with a wrong checksum was accepted"
                return "trig: parsed link differs from the sent one"
    return None
