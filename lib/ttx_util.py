"""Sender-side Teletext encoders written from EN 300 706 (independent of libzvbi), used by the
C03 generator and oracle.  Bytes are in the transmission order libzvbi expects (LSB first on air,
i.e. the value of the byte as delivered by the bit slicer)."""


def parity_odd(b):
    return bin(b & 0xFF).count("1") & 1


def par8(c):
    c &= 0x7F
    return c if parity_odd(c) else c | 0x80


def ham8(n):
    """EN 300 706 8.2: bits (lsb first) P1 D1 P2 D2 P3 D3 P4 D4"""
    d1, d2, d3, d4 = n & 1, (n >> 1) & 1, (n >> 2) & 1, (n >> 3) & 1
    p1 = 1 ^ d1 ^ d3 ^ d4
    p2 = 1 ^ d1 ^ d2 ^ d4
    p3 = 1 ^ d1 ^ d2 ^ d3
    p4 = 1 ^ p1 ^ d1 ^ p2 ^ d2 ^ p3 ^ d3 ^ d4
    return p1 | d1 << 1 | p2 << 2 | d2 << 3 | p3 << 4 | d3 << 5 | p4 << 6 | d4 << 7


def ham16(v):
    return [ham8(v & 15), ham8((v >> 4) & 15)]


def ham24(v):
    """EN 300 706 8.3: 18 data bits into positions 3,5,6,7,9..15,17..23 (1-based), P1..P5 at
    1,2,4,8,16 (odd parity over the positions whose index has that bit), P6 at 24 (overall)."""
    bits = [0] * 25
    datapos = [3, 5, 6, 7, 9, 10, 11, 12, 13, 14, 15, 17, 18, 19, 20, 21, 22, 23]
    for k, pos in enumerate(datapos):
        bits[pos] = (v >> k) & 1
    for pb in (1, 2, 4, 8, 16):
        x = 1
        for pos in range(1, 24):
            if pos & pb and pos != pb:
                x ^= bits[pos]
        bits[pb] = x
    x = 1
    for pos in range(1, 24):
        x ^= bits[pos]
    bits[24] = x
    out = []
    for byte in range(3):
        b = 0
        for k in range(8):
            b |= bits[1 + byte * 8 + k] << k
        out.append(b)
    return out


def addr(mag, packet):
    """mag 1..8, packet 0..31 -> two Hamming 8/4 bytes"""
    v = (mag & 7) | (packet << 3)
    return ham16(v)


def rev_bits(v, n):
    r = 0
    for i in range(n):
        r |= ((v >> i) & 1) << (n - 1 - i)
    return r


def header(mag, page, subno=0, c4=0, c5=0, c6=0, c7=0, c8=0, c9=0, c10=0, c11=0, national=0, text=None):
    """page = two hex digits (0x00..0xFF), subno = S4 S3 S2 S1 as 0x3F7F-masked value.
    text: 32 character codes (7 bit) for columns 8..39."""
    s1, s2, s3, s4 = subno & 15, (subno >> 4) & 7, (subno >> 8) & 15, (subno >> 12) & 3
    b = addr(mag, 0)
    b += [ham8(page & 15), ham8(page >> 4)]
    b += [ham8(s1), ham8(s2 | (c4 << 3)), ham8(s3), ham8(s4 | (c5 << 2) | (c6 << 3))]
    # control byte pair: C7 C8 C9 C10 | C11 C12 C13 C14 ; national option bits C12..C14 msb first
    nat = rev_bits(national & 7, 3)
    b += [ham8(c7 | (c8 << 1) | (c9 << 2) | (c10 << 3)), ham8(c11 | (nat << 1))]
    if text is None:
        text = [0x20] * 32
    assert len(text) == 32
    b += [par8(c) for c in text]
    return b


def row(mag, packet, chars):
    assert len(chars) == 40
    return addr(mag, packet) + [par8(c) for c in chars]


def triplet(address, mode, data):
    return ham24((address & 0x3F) | ((mode & 0x1F) << 6) | ((data & 0x7F) << 11))


def x26(mag, designation, triplets):
    """triplets: list of up to 13 (address, mode, data); padded with (41, 0x1E, 0)... termination markers"""
    b = addr(mag, 26) + [ham8(designation)]
    t = list(triplets)
    while len(t) < 13:
        t.append((0x3F, 0x1F, 0x7F))    # termination marker
    for a, m, d in t[:13]:
        b += triplet(a, m, d)
    return b


def page_link(mag, pgno, subno):
    """6 Hamming 8/4 bytes of a link (X/27/0..3, 8/30): relative magazine encoding"""
    m = ((pgno >> 8) & 7) ^ (mag & 7)
    page = pgno & 0xFF
    s1, s2, s3, s4 = subno & 15, (subno >> 4) & 7, (subno >> 8) & 15, (subno >> 12) & 3
    return [ham8(page & 15), ham8(page >> 4), ham8(s1), ham8(s2 | ((m & 1) << 3)), ham8(s3),
            ham8(s4 | ((m >> 1) << 2))]


def x27_0(mag, links, control=0xF):
    """links: 6 (pgno, subno); control: link control nibble (bit 3 = display row 24)"""
    b = addr(mag, 27) + [ham8(0)]
    for pg, sn in links:
        b += page_link(mag, pg, sn)
    b += [ham8(control), 0, 0]
    assert len(b) == 42
    return b


def x28_0(mag, packet, designation, triplets18):
    """13 raw 18-bit values"""
    b = addr(mag, packet) + [ham8(designation)]
    for v in triplets18:
        b += ham24(v)
    return b


def pack_bits(fields):
    """fields: list of (value, nbits) lsb-first -> thirteen 18-bit triplet values"""
    acc, n = 0, 0
    for v, w in fields:
        acc |= (v & ((1 << w) - 1)) << n
        n += w
    out = []
    for i in range(13):
        out.append((acc >> (18 * i)) & 0x3FFFF)
    return out


def x28_format1(mag, packet, designation, function=0, coding=0, cs0=0, cs1=0, lp=0, rp=0, status=0, lcols=0,
                colors=None, screen=0, rowc=0, bbg=0, remap=0):
    colors = colors or [0] * 16
    f = [(function, 4), (coding, 3), (cs0, 7), (cs1, 7), (lp, 1), (rp, 1), (status, 1), (lcols, 4)]
    f += [(c, 12) for c in colors]
    f += [(screen, 5), (rowc, 5), (bbg, 1), (remap, 3)]
    return x28_0(mag, packet, designation, pack_bits(f))


def p830(designation, initial_pgno=0x100, initial_subno=0x3F7F, rest=None):
    b = addr(8, 30) + [ham8(designation)] + page_link(0, initial_pgno, initial_subno)
    rest = rest if rest is not None else [0x15] * 13 + [par8(0x20)] * 20
    b += rest
    assert len(b) == 42, len(b)
    return b


def h8row(mag, packet, nibbles):
    assert len(nibbles) == 40
    return addr(mag, packet) + [ham8(n) for n in nibbles]


def hx(bs):
    return "".join("%02x" % (b & 0xFF) for b in bs)


def flip(pkt, pos, bit):
    p = list(pkt)
    p[pos] ^= 1 << bit
    return p
