#!/usr/bin/env python3
"""C18 (`proxyq`) runtime stage: the real proxy daemon and real proxy clients as separate processes.

  harness/proxyq_mp.c        daemon/proxyd.c with its own main loop, real select(), real unix socket, and (variant
                             `thread`) its real acquisition thread; only the capture device is fake and scripted
  harness/proxyq_mpclient.c  src/proxy-client.c + the generic capture API, one process per client
  this file                  orchestrator (schedules, flow control, no sleeps) and oracle

API
  run_runtime_stage(tier, seed, log=print, variants=("select", "thread"), kinds=None, jobs=None, schedule=None)
      -> (violations, coverage)
      violations: list of (what: str, lines: list[str]);  lines = the schedule as executed + the observed facts
      coverage:   dict of counts (schedules per variant, frames released / delivered, clients, stalls, overflows
                  observed, device open/close cycles, ..., wall_seconds)
  python3 lib/proxyq_mp.py --tier quick|thorough --seed N [--variant select|thread] [--kind K] [--repeat R] [-v]
  python3 lib/proxyq_mp.py --variant V --kind K --schedule-seed S -v        (replay of exactly one schedule)
      exit status 1 when there is any violation

Synchronisation: every step waits for an answer line of the process concerned (deadline DEADLINE seconds, a missed
deadline is reported as `hang: ...`).  Flow control: frame k is released only after every client which is supposed
to keep up has printed frame k-W; the daemon's queue has at least 9 buffers, so such a client can never be
overflowed, however slow the machine is, and a frame it does not get is a defect.

Schedules (`--kind`; services, strictness, supported masks, frame contents, counts from the seeded rng):
  keepup       1..4 (thorough ..6) clients keep up for 30-60 frames
  joinleave    late joiner while frames flow; two early leavers (one clean `quit`, one abrupt `die`), frames in flight
  svc          a client changes services mid-stream (answer awaited while frames flow); in every second round another
               client lags by 7-8 frames (fewer than the queue holds: it must lose nothing) while the request is served
  stall        one client stops reading for >= 60 frames (overflow), meanwhile a wide client leaves and/or the others
               leave or change services (the stalled client's backlog was captured under the old device set); resume
  twostall     two clients stalled through the same overflow period + one which keeps up; resumed after the daemon
               has forwarded everything: their backlogs must start at the same frame
  reopen       connect, frames, leave -> device closes, frames are lost for everybody, next client -> device reopens
  quitstalled  daemon `quit` (SIGTERM path) while a client is stalled and the queue is full; clients see end of file
  mixed        random sequence of the above actions
  threadrace   thread variant only, delay injection PROXYQ_MP_RACE_US=500 (see harness/proxyq_mp.c): defect
               C18-D5 `acq-thread-link` on demand; once per run
  threadforce  thread variant only, delay injections PROXYQ_MP_MAINMALLOC_US / PROXYQ_MP_MAINLOCK_US: one client served
               slower than frames are released, the queue overflows while the main thread is sending to it: defect
               C18-D6 `acq-thread-forcefree` on demand; once per run
quick tier (default): every ordinary kind on the SELECT variant x 2 seeds + thread/threadrace + thread/threadforce
= 18 schedules; thorough: every ordinary kind on both variants x 10 seeds, twice the frames, + the two = 162 schedules.
An explicit --variant/--kind (variants=/kinds=) selects exactly that.

Every `what` starts with `runtime acq-thread-forcefree: ` (thread variant only: heap overflow in vbi_proxyd_send_sliced,
or wrong order / wrong lines in a run where the queue can overflow - see fixes/C18-acq-thread-forcefree.md), with
`runtime acq-thread-link: ` (thread variant only: the queue-head assertion of
vbi_proxy_queue_release_sliced, a frame lost by a client which keeps up, or the hang which follows from the buffer
left at the queue head - see fixes/C18-acq-thread-link.md) or with `runtime: ` (everything else).

Oracle (judges what the clients saw against the script, no model of the daemon involved):
  * every frame a client prints is a scripted frame the device really delivered (not one released while the device
    was closed), with the exact timestamp; frames arrive in strictly increasing capture order
  * its lines are exactly the scripted lines whose id intersects the services granted to that client at that
    time, in order, payload intact
  * a client which keeps up misses nothing between the moment the orchestrator saw its `connected` / `svc` answer
    (or saw it catch up after a stall) and the last frame it printed before its next answer; at the end of a
    schedule and before clean departures the orchestrator waits until everything released has arrived
  * a stalled client may lose frames, what it gets is in order and correct; the others lose nothing meanwhile
  * device: open / update / close calls alternate properly; at quiescent points the device is open iff some
    connected client holds services, and its active set is the union of the clients' grants
  * the grant a client is told equals requested & supported[strict], accumulated as the protocol says
  * two clients stalled through the same overflow period hold the same backlog afterwards (overflow takes the oldest
    frame only from clients which still have it pending); a client lagging by less than the queue holds loses nothing
  * no process crashes, no sanitizer report, the daemon's SIGTERM path ends with exit status 0
It samples schedules; it proves nothing.
"""
import argparse, bisect, concurrent.futures, os, random, re, signal, subprocess, sys, tempfile, threading, time

LIB = os.path.dirname(os.path.abspath(__file__))
if LIB not in sys.path:
    sys.path.insert(0, LIB)
import verif

DEADLINE = 30.0          # per wait, seconds
W = 3                    # flow-control window (frames in flight per keeping-up client)
BITS = [0x1, 0x2, 0x4, 0x8, 0x10, 0x400]
ALLSVC = 0x41f
COMPOSITE = [0x3, 0x18, 0x401]
TS0, TSSTEP = 1000000000, 40000
SAN_RE = re.compile(r"ERROR: (Address|Leak|Thread|Undefined)|runtime error:|AddressSanitizer|LeakSanitizer|Assertion .* failed|SUMMARY: ")
RACE_WINDOW_US = 500
MAINLOCK_US = 300
MAINMALLOC_US = 1500
FORCE_PREFIX = "runtime acq-thread-forcefree: "
RACE_PREFIX = "runtime acq-thread-link: "
RACE_ASSERT = "vbi_proxy_queue_release_sliced: Assertion `p_proxy_dev->p_sliced == p_buf'"
KINDS = ["keepup", "joinleave", "svc", "stall", "twostall", "reopen", "quitstalled", "mixed", "threadrace", "threadforce"]

_uniq = [0]
_uniq_lock = threading.Lock()


class Hang(Exception):
    pass


class Crash(Exception):
    pass


class Proc:
    def __init__(self, name, argv, cond, env_extra=None):
        self.name, self.cond = name, cond
        self.lines = []
        self.eof = False
        self.last_idx = -1          # clients: highest frame index printed
        self.nframes = 0
        self.err = tempfile.TemporaryFile()
        env = dict(os.environ)
        env.update(verif.SAN_ENV)
        env["LSAN_OPTIONS"] = env.get("LSAN_OPTIONS", "") + ":print_suppressions=0"
        env.pop("PROXYQ_MP_RACE_US", None)
        env.pop("PROXYQ_MP_MAINLOCK_US", None)
        env.pop("PROXYQ_MP_MAINMALLOC_US", None)
        if env_extra:
            env.update(env_extra)
        self.p = subprocess.Popen(argv, stdin=subprocess.PIPE, stdout=subprocess.PIPE, stderr=self.err,
                                  start_new_session=True, env=env, bufsize=0)
        self.t = threading.Thread(target=self._reader, daemon=True)
        self.t.start()

    def _reader(self):
        buf = b""
        fd = self.p.stdout.fileno()
        while True:
            try:
                b = os.read(fd, 65536)
            except OSError:
                b = b""
            if not b:
                break
            buf += b
            *ls, buf = buf.split(b"\n")
            with self.cond:
                for l in ls:
                    s = l.decode("utf-8", "replace")
                    self.lines.append(s)
                    if s.startswith("f "):
                        try:
                            i = (int(s.split(" ", 2)[1]) - TS0) // TSSTEP
                            self.nframes += 1
                            if i > self.last_idx:
                                self.last_idx = i
                        except (ValueError, IndexError):
                            pass
                self.cond.notify_all()
        with self.cond:
            self.eof = True
            self.cond.notify_all()

    def send(self, text):
        try:
            self.p.stdin.write((text + "\n").encode())
            self.p.stdin.flush()
            return True
        except (BrokenPipeError, OSError, ValueError):
            return False

    def stderr_text(self):
        try:
            self.err.seek(0)
            return self.err.read().decode("utf-8", "replace")
        except (OSError, ValueError):
            return ""

    def kill(self):
        try:
            os.killpg(self.p.pid, signal.SIGKILL)
        except (ProcessLookupError, PermissionError, OSError):
            pass
        try:
            self.p.kill()
        except OSError:
            pass

    def reap(self):
        try:
            self.p.wait(timeout=10)
        except subprocess.TimeoutExpired:
            pass
        for f in (self.p.stdin, self.p.stdout):
            try:
                f.close()
            except OSError:
                pass
        self.t.join(timeout=5)


class Client(Proc):
    """orchestrator-side bookkeeping of one client; `cmds` pairs with the client's answer lines in order"""

    def __init__(self, name, argv, cond, services, strict):
        self.req = (services, strict)
        self.cmds = []            # dict(kind, nrel_send, nrel_ack, marker, mask, strict, reset)
        self.nack = 0             # answers consumed
        self.ackpos = 0           # scan position in self.lines
        self.keep = False         # supposed to keep up (flow control + completeness)
        self.from_idx = None
        self.grant = None
        self.levels = {-1: 0, 0: 0, 1: 0, 2: 0}
        self.left = False         # quit/die sent, or eof seen
        self.gone = False
        self.failed = None
        self.paused = False
        self.unpaced = False      # never under flow control / completeness (schedule threadforce)
        Proc.__init__(self, name, argv, cond)


def popcount(x):
    return bin(x).count("1")


class Run:
    def __init__(self, exes, variant, kind, seed, tier, race_us=0):
        self.race_us = RACE_WINDOW_US if kind == "threadrace" else race_us
        self.dexe, self.cexe = exes
        self.variant, self.kind, self.seed, self.tier = variant, kind, seed, tier
        self.rng = random.Random("%s/%s/%d" % (variant, kind, seed))
        self.cond = threading.Condition()
        self.log = []
        self.viol = []            # strings
        self.frames = []          # dict(idx, ts, lines, status)
        self.queued = []          # sorted indices with status queued
        self.discarded = set()
        self.nrel = 0
        self.daemon = None
        self.clients = []
        self.pairs = []           # (client, client, newest frame): stalled together, see sched_twostall
        self.dpos = 0             # daemon lines examined by the device-log checker
        self.dev_open = False
        self.cov = dict(frames_released=0, frames_delivered=0, clients=0, stalls=0, overflows_observed=0,
                        device_cycles=0, svc_changes=0, svc_edge_partial=0, joins_midstream=0, leaves_clean=0,
                        leaves_abrupt=0, frames_dropped_closed=0, hackfd=0, condto=0, daemon_quit_stalled=0)
        with _uniq_lock:
            _uniq[0] += 1
            n = _uniq[0]
        self.devname = "/dev/vbi-verif-%d-%d" % (os.getpid(), n)
        self.sock = "/tmp/vbiproxy" + self.devname.replace("/", "-")
        r = self.rng
        s0 = ALLSVC & ~(r.choice(BITS) if r.random() < 0.5 else 0)
        s1 = s0 & ~r.choice(BITS) & ~(r.choice(BITS) if r.random() < 0.5 else 0)
        s2 = s1 & ~r.choice(BITS) & ~r.choice(BITS)
        if s2 == 0:
            s2 = s1 & -s1
        self.sup = {-1: ALLSVC, 0: s0, 1: s1, 2: s2}
        self.daemon_quit_sent = False

    # ---------------------------------------------------------------- plumbing
    def note(self, s):
        self.log.append("%3d [rel=%d] %s" % (len(self.log), self.nrel, s))

    def violation(self, s):
        self.viol.append(s)
        self.note("VIOLATION " + s)

    def wait(self, pred, what, watch=()):
        end = time.monotonic() + DEADLINE
        with self.cond:
            while True:
                if pred():
                    return
                if self.daemon is not None and self.daemon.eof and not self.daemon_quit_sent:
                    raise Crash("daemon died while: " + what)
                for c in watch:
                    if c.eof and not pred():
                        raise Crash("%s ended while: %s" % (c.name, what))
                rem = end - time.monotonic()
                if rem <= 0:
                    raise Hang(what)
                self.cond.wait(min(rem, 1.0))

    def dline_after(self, pos, rx):
        for i in range(pos, len(self.daemon.lines)):
            if rx.match(self.daemon.lines[i]):
                return i
        return -1

    def daemon_cmd(self, cmd, rx, what):
        with self.cond:
            pos = len(self.daemon.lines)
        if not self.daemon.send(cmd):
            raise Crash("daemon stdin closed while: " + what)
        res = []

        def pred():
            i = self.dline_after(pos, rx)
            if i >= 0:
                res.append(self.daemon.lines[i])
                return True
            return False
        self.wait(pred, what)
        return res[0]

    def start_daemon(self):
        argv = [self.dexe, self.variant, self.devname] + ["0x%x" % self.sup[s] for s in (-1, 0, 1, 2)]
        self.note("daemon %s sup[-1..2]=%s" % (self.variant, " ".join("%x" % self.sup[s] for s in (-1, 0, 1, 2))))
        extra = None
        if self.kind == "threadforce":
            extra = {"PROXYQ_MP_MAINLOCK_US": str(MAINLOCK_US), "PROXYQ_MP_MAINMALLOC_US": str(MAINMALLOC_US)}
            self.note("delay injection: main thread sleeps %d us before locking queue_mutex and %d us in malloc "
                      "(PROXYQ_MP_MAINLOCK_US, PROXYQ_MP_MAINMALLOC_US)" % (MAINLOCK_US, MAINMALLOC_US))
        elif self.race_us and self.variant == "thread":
            extra = {"PROXYQ_MP_RACE_US": str(self.race_us)}
            self.note("delay injection: acquisition thread sleeps %d us after unlocking clnt_mutex (PROXYQ_MP_RACE_US)" % self.race_us)
        self.daemon = Proc("daemon", argv, self.cond, extra)
        self.wait(lambda: any(l.startswith("ready") or l.startswith("failed") for l in self.daemon.lines),
                  "daemon start (ready)")
        if not self.daemon.lines[0].startswith("ready"):
            raise Crash("daemon did not start: %r" % self.daemon.lines[:3])

    # ---------------------------------------------------------------- clients
    def pick_services(self):
        r = self.rng
        for _ in range(100):
            m = 0
            for b in r.sample(BITS, r.randint(1, 4)):
                m |= b
            st = r.choice([-1, 0, 0, 1, 1, 2])
            if m & self.sup[st]:
                return m, st
        return ALLSVC, -1

    def model_request(self, c, mask, strict, reset):
        if reset:
            for s in c.levels:
                c.levels[s] = 0
        for s in c.levels:
            c.levels[s] &= ~mask
        c.levels[strict] |= mask
        g = 0
        for s in c.levels:
            c.levels[s] &= self.sup[s]
            g |= c.levels[s]
        return g

    def spawn(self, services=None, strict=None, buffers=None):
        if services is None:
            services, strict = self.pick_services()
        if buffers is None:
            buffers = self.rng.choice([1, 2, 5, 8, 10])
        name = "c%d" % len(self.clients)
        c = Client(name, [self.cexe, self.devname, "0x%x" % services, str(strict), str(buffers)], self.cond, services, strict)
        c.cmds.append(dict(kind="connect", nrel_send=self.nrel, nrel_ack=None, mask=services, strict=strict, reset=True))
        self.clients.append(c)
        self.cov["clients"] += 1
        self.note("%s start services=%x strict=%d buffers=%d" % (name, services, strict, buffers))
        return c

    ACKS = {"connected": "connect", "failed": "connect", "paused": "pause", "resumed": "resume", "svc": "svc", "bye": "quit"}

    def poll(self):
        """consume new answer lines of all clients (orchestrator thread, under self.cond)"""
        for c in self.clients:
            while c.ackpos < len(c.lines):
                l = c.lines[c.ackpos]
                c.ackpos += 1
                if l.startswith("f "):
                    continue
                w = l.split(" ", 1)[0]
                if w == "eof":
                    c.left = True
                    c.keep = False
                    self.note("%s: %s" % (c.name, l))
                    continue
                kind = self.ACKS.get(w)
                if kind is None or c.nack >= len(c.cmds) or c.cmds[c.nack]["kind"] != kind:
                    self.violation("%s: unexpected answer %r" % (c.name, l))
                    continue
                cmd = c.cmds[c.nack]
                c.nack += 1
                cmd["nrel_ack"] = self.nrel
                cmd["answer"] = l
                self.note("%s: %s" % (c.name, l))
                if w == "failed":
                    c.failed = l
                    c.left = True
                elif w in ("connected", "svc"):
                    m = re.match(r"(?:connected services=|svc )([0-9a-f]+)", l)
                    c.grant = int(m.group(1), 16) if m else 0
                    exp = self.model_request(c, cmd["mask"], cmd["strict"], cmd["reset"])
                    if c.grant != exp:
                        self.violation("%s: granted services %x, requested & supported gives %x (%s)" % (c.name, c.grant, exp, l))
                    if " rej=" in l:
                        self.violation("%s: service request rejected: %s" % (c.name, l))
                    c.keep = not c.paused
                    c.from_idx = self.nrel
                elif w == "paused":
                    c.paused = True
                elif w == "resumed":
                    c.paused = False
                elif w == "bye":
                    c.left = True

    def acked(self, c):
        self.poll()
        return c.nack >= len(c.cmds)

    def await_ack(self, c, what):
        self.wait(lambda: self.acked(c), "%s: %s" % (c.name, what), watch=(c,))

    def connect(self, **kw):
        c = self.spawn(**kw)
        self.await_ack(c, "connected")
        if c.failed:
            self.violation("%s: connect failed: %s" % (c.name, c.failed))
        return c

    def command(self, c, kind, text, **extra):
        d = dict(kind=kind, nrel_send=self.nrel, nrel_ack=None)
        d.update(extra)
        c.cmds.append(d)
        self.note("%s <- %s" % (c.name, text))
        if kind in ("pause", "svc", "quit"):
            c.keep = False
        if not c.send(text):
            raise Crash("%s stdin closed at: %s" % (c.name, text))

    def required_upto(self, c, k):
        """highest queued frame index <= k which client c must receive (>= its from_idx), or -1"""
        i = bisect.bisect_right(self.queued, k) - 1
        if i < 0 or self.queued[i] < c.from_idx:
            return -1
        return self.queued[i]

    def flow_control(self, k):
        for c in self.clients:
            with self.cond:
                self.poll()
            if c.keep:
                t = self.required_upto(c, k)
                if t >= 0:
                    self.wait(lambda: c.last_idx >= t or not c.keep, "%s (keeping up) never printed frame %d" % (c.name, t), watch=(c,))

    def drain(self, only=None):
        for c in (only if only is not None else self.clients):
            with self.cond:
                self.poll()
            if c.keep:
                t = self.required_upto(c, self.nrel - 1)
                if t >= 0:
                    self.wait(lambda: c.last_idx >= t, "%s (keeping up) never printed frame %d (drain)" % (c.name, t), watch=(c,))

    # ---------------------------------------------------------------- frames
    def gen_frame(self, big=False):
        r = self.rng
        n = r.choice([8, 10, 12]) if big else r.choice([0, 1, 1, 2, 3, 3, 5, 8, 12])
        lines, ln = [], r.randint(6, 10)
        for _ in range(n):
            i = r.choice(COMPOSITE) if r.random() < 0.15 else r.choice(BITS)
            lines.append((i, ln, r.randint(0, 255)))
            ln += r.randint(1, 3)
            if ln > 22 and ln < 318:
                ln = 318 + r.randint(0, 3)
        return lines

    def release(self, big=False):
        k = self.nrel
        self.flow_control(k - W)
        lines = self.gen_frame(big)
        fr = dict(idx=k, ts=TS0 + TSSTEP * k, lines=lines, status=None)
        self.frames.append(fr)
        self.nrel += 1
        ans = self.daemon_cmd("cap %d %s" % (fr["ts"], " ".join("0x%x:%d:%d" % l for l in lines)),
                              re.compile(r"^(ok cap %d |rej )" % k), "release of frame %d (ok cap)" % k)
        if ans.startswith("rej"):
            raise Crash("daemon harness rejected frame %d: %s" % (k, ans))
        fr["status"] = ans.split()[3]
        if fr["status"] == "queued":
            self.queued.append(k)
        else:
            self.cov["frames_dropped_closed"] += 1
        self.cov["frames_released"] += 1
        self.log.append("%3d [rel=%d] cap %d %s: %s" % (len(self.log), self.nrel, k, fr["status"],
                                                      " ".join("%x.%d.%d" % l for l in lines) or "-"))
        return k

    def burst(self, n, big=False):
        for _ in range(n):
            self.release(big)

    # ---------------------------------------------------------------- device log
    def subscribed(self):
        return [c for c in self.clients if c.grant and not c.left and c.nack > 0]

    def check_device(self, where):
        """quiescent point: daemon answers `stat` (so every earlier line of it has been read), then the device calls
        seen so far are checked and the state is compared with the clients' grants"""
        st = self.daemon_cmd("stat", re.compile(r"^ok stat "), "daemon stat (%s)" % where)
        with self.cond:
            lines = list(self.daemon.lines)
        for l in lines[self.dpos:]:
            if l.startswith("dev open"):
                if self.dev_open:
                    self.violation("device opened twice (%s)" % where)
                self.dev_open = True
            elif l.startswith("dev close"):
                if not self.dev_open:
                    self.violation("device closed while closed (%s)" % where)
                self.dev_open = False
                self.cov["device_cycles"] += 1
                m = re.match(r"dev close discarded=(\d+)\s*(.*)", l)
                if m and m.group(2):
                    self.discarded.update(int(x) for x in m.group(2).split(",") if x.strip())
            elif l.startswith("dev upd"):
                if not self.dev_open:
                    self.violation("device updated while closed (%s): %s" % (where, l))
            elif l.startswith("dev hackfd"):
                self.cov["hackfd"] += 1
            elif l.startswith("dev condtimeout"):
                self.cov["condto"] += 1
        self.dpos = len(lines)
        kv = dict(x.split("=") for x in st.split()[2:])
        union = 0
        for c in self.subscribed():
            union |= c.grant
        is_open, active = kv["open"] == "1", int(kv["active"], 16)
        self.note("device check (%s): %s; clients' union=%x" % (where, st, union))
        if is_open != (union != 0):
            self.violation("device open=%d but the clients' grants are %x (%s)" % (is_open, union, where))
        elif is_open and active != union:
            self.violation("device decodes %x, the clients' grants are %x (%s)" % (active, union, where))

    def await_device_reaction(self, pos, where):
        rx = re.compile(r"^dev (close|upd .*commit=1)")
        self.wait(lambda: self.dline_after(pos, rx) >= 0, "device update/close after %s" % where)

    def dmark(self):
        with self.cond:
            return len(self.daemon.lines)

    # ---------------------------------------------------------------- composite actions
    def leave(self, c, abrupt, drain_first=True):
        """service-affecting: serialised by the caller"""
        if drain_first and c.keep:
            self.drain([c])
        self.daemon_cmd("stat", re.compile(r"^ok stat "), "daemon stat (sync)")   # everything the daemon printed so far is read
        pos = self.dmark()
        had = bool(c.grant)
        if abrupt:
            c.cmds.append(dict(kind="die", nrel_send=self.nrel, nrel_ack=self.nrel))
            c.nack += 1
            c.keep = False
            c.left = True
            self.note("%s <- die" % c.name)
            c.send("die")
            self.cov["leaves_abrupt"] += 1
        else:
            self.command(c, "quit", "quit")
            self.await_ack(c, "bye")
            self.cov["leaves_clean"] += 1
        self.wait(lambda: c.eof, "%s: process exit" % c.name)
        c.p.wait()
        c.gone = True
        if c.p.returncode != 0:
            self.violation("%s: exit status %d: %s" % (c.name, c.p.returncode, c.stderr_text()[-600:]))
        if had:
            self.await_device_reaction(pos, "%s left" % c.name)
        self.check_device("%s left" % c.name)

    def change_services(self, c, wait=True):
        r = self.rng
        for _ in range(100):
            m = 0
            for b in r.sample(BITS, r.randint(1, 3)):
                m |= b
            st = r.choice([-1, 0, 1, 2])
            if m & self.sup[st]:
                break
        else:
            m, st = ALLSVC, -1
        rs = 1 if r.random() < 0.5 else 0
        self.cov["svc_changes"] += 1
        self.command(c, "svc", "svc 0x%x %d %d" % (m, st, rs), mask=m, strict=st, reset=bool(rs))
        if wait:
            self.await_ack(c, "svc answer")

    def stall(self, c, nframes, big=True):
        self.command(c, "pause", "pause")
        self.await_ack(c, "paused")
        self.cov["stalls"] += 1
        self.burst(nframes, big)

    def unstall(self, c):
        """resume; the client has caught up when it has printed the newest frame (which overflow never takes away)"""
        self.command(c, "resume", "resume")
        self.await_ack(c, "resumed")
        m = self.queued[-1] if self.queued else -1
        c.cmds[-1]["marker"] = m
        self.note("%s: caught up when it prints frame %d" % (c.name, m))
        self.wait(lambda: c.last_idx >= m, "%s never printed frame %d after resume" % (c.name, m), watch=(c,))
        c.keep = True
        c.from_idx = m + 1

    def lag_begin(self, c, n):
        """bounded lag: c stops reading for n <= 8 frames; the queue holds at least 10 buffers (8 + one per client, two
        clients or more), so nothing may be lost and c stays under the completeness rule"""
        self.command(c, "pause", "pause", bounded=True)
        self.await_ack(c, "paused")
        self.burst(n, big=True)

    def lag_end(self, c):
        self.command(c, "resume", "resume", bounded=True)
        self.await_ack(c, "resumed")
        m = self.queued[-1] if self.queued else -1
        self.wait(lambda: c.last_idx >= m, "%s (lagging by less than the queue holds) never printed frame %d" % (c.name, m), watch=(c,))
        c.keep = True

    def finish(self, quit_clients=True):
        self.drain()
        if quit_clients:
            for c in self.clients:
                if not c.left:
                    self.leave(c, abrupt=False)
        self.stop_daemon()

    def stop_daemon(self):
        self.check_device("before daemon quit")
        self.daemon_quit_sent = True
        self.note("daemon <- quit")
        self.daemon.send("quit")
        self.wait(lambda: self.daemon.eof, "daemon exit after quit (SIGTERM path)")
        try:
            self.daemon.p.wait(timeout=DEADLINE)
        except subprocess.TimeoutExpired:
            raise Hang("daemon process exit after quit")
        self.judge_daemon_exit()

    def judge_daemon_exit(self):
        rc = self.daemon.p.returncode
        err = self.daemon.stderr_text()
        bad = [l for l in err.split("\n") if SAN_RE.search(l)]
        self.note("daemon exit status %s; last line %r" % (rc, self.daemon.lines[-1] if self.daemon.lines else None))
        if rc != 0 or bad or not (self.daemon.lines and self.daemon.lines[-1].startswith("ok quit")):
            self.violation("daemon crashed or did not shut down cleanly: exit status %s: %s" % (rc, " | ".join(err.strip().split("\n")[:12])[-1500:]))

    # ---------------------------------------------------------------- schedules
    def nf(self, lo, hi):
        return self.rng.randint(lo, hi) * (2 if self.tier == "thorough" else 1)

    def sched_keepup(self):
        n = self.rng.randint(1, 4) if self.tier == "quick" else self.rng.randint(1, 6)
        for _ in range(n):
            self.connect()
        self.check_device("all connected")
        self.burst(self.nf(30, 60))
        self.finish()

    def sched_joinleave(self):
        a = self.connect()
        l1 = self.connect()
        l2 = self.connect()
        self.check_device("three connected")
        self.burst(self.nf(5, 10))
        # late joiner while frames flow: the process starts, frames keep coming, its answer is picked up on the way
        j = self.spawn()
        self.cov["joins_midstream"] += 1
        self.burst(self.nf(8, 15))
        self.await_ack(j, "connected (late joiner)")
        self.burst(self.nf(5, 10))
        # early leavers, frames in flight (no drain before the departure)
        first_abrupt = self.rng.random() < 0.5
        self.leave(l1, abrupt=first_abrupt, drain_first=False)
        self.burst(self.nf(8, 15))
        self.leave(l2, abrupt=not first_abrupt, drain_first=False)
        self.burst(self.nf(8, 15))
        self.finish()

    def sched_svc(self):
        cs = [self.connect() for _ in range(self.rng.randint(2, 3))]
        c = cs[-1]
        self.burst(self.nf(6, 12))
        for rnd in range(2 if self.tier == "quick" else 4):
            if rnd % 2 == 1:
                # another client lags a little (frames pending in the daemon's queue) while c's request is served:
                # flushing c's queue must not touch the other client's frames
                b = self.rng.choice([x for x in cs if x is not c])
                self.lag_begin(b, self.rng.randint(7, 8))
                self.change_services(c)
                self.lag_end(b)
            else:
                self.change_services(c, wait=False)      # frames keep flowing while the request is under way
                self.burst(self.nf(6, 12))
                self.await_ack(c, "svc answer")
            self.check_device("after svc of %s" % c.name)
            self.burst(self.nf(6, 12))
            c = self.rng.choice(cs)
        self.finish()

    def sched_stall(self):
        others = [self.connect() for _ in range(self.rng.randint(1, 2))]
        s = self.connect()
        wide = self.connect(services=ALLSVC, strict=-1) if self.rng.random() < 0.7 else None
        self.burst(self.nf(5, 10))
        self.stall(s, max(60, self.nf(60, 70)))
        # while s is stalled with a full backlog the device's service set shrinks or changes: what s gets later was
        # captured under the old set and must still be filtered for s
        if wide is not None:
            self.leave(wide, abrupt=self.rng.random() < 0.5, drain_first=False)
        flavour = self.rng.choice(["none", "leave", "svc"])
        if flavour == "leave":
            for o in others:
                self.leave(o, abrupt=self.rng.random() < 0.5, drain_first=False)
            others = []
        elif flavour == "svc":
            self.change_services(others[0])
            self.check_device("svc of %s while %s is stalled" % (others[0].name, s.name))
        self.burst(self.rng.randint(0, 5))
        self.drain(others)
        self.unstall(s)
        self.burst(self.nf(8, 12))
        self.finish()

    def sched_twostall(self):
        """two clients stalled through the same overflow period: overflow takes the oldest frame only from the clients
        which still have it pending, so once both have overflowed both hold exactly the queue's content; after the
        resume (nothing released meanwhile) their backlogs must start at the same frame"""
        s1 = self.connect()
        s2 = self.connect()
        a = self.connect()      # keeps up throughout: when it has printed the newest frame the daemon has forwarded everything
        self.burst(self.nf(4, 8))
        self.command(s1, "pause", "pause")
        self.await_ack(s1, "paused")
        self.burst(self.rng.randint(4, 7), big=True)     # s2's cursor stays ahead of s1's, whatever the sockets hold
        self.command(s2, "pause", "pause")
        self.await_ack(s2, "paused")
        self.cov["stalls"] += 2
        self.burst(max(50, self.nf(50, 60)), big=True)
        self.drain([a])
        self.pairs.append((s1, s2, self.nrel - 1))
        first, second = (s1, s2) if self.rng.random() < 0.5 else (s2, s1)
        self.unstall(first)
        self.unstall(second)
        self.burst(self.nf(5, 10))
        self.finish()

    def sched_threadrace(self):
        """defect D5 acq-thread-link on demand: thread variant with the delay injection, two clients keeping up"""
        self.connect()
        self.connect()
        self.burst(40)
        self.finish()

    def sched_threadforce(self):
        """thread variant, main thread slowed down before every lock of queue_mutex: one client which reads as fast as it
        can but gets its frames slower than they are released (no pacing), so the queue overflows while the main thread
        is sending to that very client.  Losses are legitimate; order and content are not negotiable."""
        c = self.connect(services=ALLSVC, strict=-1)
        c.unpaced = True
        c.keep = False
        for i in range(120):                             # small and large frames alternate: a message sized for a
            self.release(big=(i % 2 == 1))               # small one and filled from a large one overflows
        m = self.queued[-1]
        self.wait(lambda: c.last_idx >= m, "%s never printed the newest frame %d" % (c.name, m), watch=(c,))
        self.finish()

    def sched_reopen(self):
        for cyc in range(3 if self.tier == "quick" else 5):
            c = self.connect()
            self.check_device("cycle %d connected" % cyc)
            self.burst(self.nf(4, 8))
            self.leave(c, abrupt=(cyc % 2 == 1))
            self.burst(self.rng.randint(2, 4))           # device closed: these frames are lost for everybody
        self.finish()

    def sched_quitstalled(self):
        a = self.connect()
        s = self.connect()
        self.burst(self.nf(4, 8))
        self.stall(s, self.nf(25, 35))
        self.cov["daemon_quit_stalled"] += 1
        self.stop_daemon()                               # shutdown with a blocked client and a full queue
        self.note("%s <- resume (daemon is gone: what is left in the socket, then eof)" % s.name)
        s.cmds.append(dict(kind="resume", nrel_send=self.nrel, nrel_ack=None, marker=None))
        s.send("resume")
        for c in (a, s):
            self.wait(lambda: c.eof, "%s: end of file after daemon exit" % c.name)
            c.p.wait()
            c.gone = True
            with self.cond:
                self.poll()
            if not any(l.startswith("eof") for l in c.lines) or c.p.returncode != 3:
                self.violation("%s: expected `eof` and exit status 3 after the daemon's exit, got status %s, last lines %r; %s"
                               % (c.name, c.p.returncode, c.lines[-2:], c.stderr_text()[-400:]))

    def sched_mixed(self):
        r = self.rng
        self.connect()
        steps = 12 if self.tier == "quick" else 30
        for _ in range(steps):
            live = [c for c in self.clients if not c.left]
            keepers = [c for c in live if c.keep]
            act = r.choice(["burst", "burst", "join", "leave", "svc", "stall", "joinflow"])
            if act == "burst" or not live:
                if not live:
                    self.connect()
                self.burst(r.randint(3, 12))
            elif act == "join" and len(live) < 5:
                self.connect()
                self.check_device("join")
            elif act == "joinflow" and len(live) < 5:
                j = self.spawn()
                self.cov["joins_midstream"] += 1
                self.burst(r.randint(4, 10))
                self.await_ack(j, "connected (late joiner)")
            elif act == "leave" and len(live) > 0:
                self.leave(r.choice(live), abrupt=r.random() < 0.5, drain_first=r.random() < 0.5)
            elif act == "svc" and keepers:
                c = r.choice(keepers)
                self.change_services(c, wait=False)
                self.burst(r.randint(2, 8))
                self.await_ack(c, "svc answer")
                self.check_device("svc")
            elif act == "stall" and keepers:
                c = r.choice(keepers)
                self.stall(c, r.randint(15, 70), big=r.random() < 0.7)
                rest = [x for x in live if x is not c]
                if rest and r.random() < 0.5:
                    o = r.choice(rest)
                    if r.random() < 0.5 or not o.keep:
                        self.leave(o, abrupt=r.random() < 0.5, drain_first=False)
                    else:
                        self.change_services(o)
                        self.check_device("svc during stall")
                self.unstall(c)
        self.finish()

    # ---------------------------------------------------------------- oracle
    def parse_frame(self, l):
        p = l.split(" ")
        ts, n = int(p[1]), int(p[2])
        got = []
        if p[3] != "-":
            for x in p[3].split(","):
                i, ln, sd = x.split(".")
                got.append((int(i, 16), int(ln), sd if sd == "bad" else int(sd)))
        if len(got) != n:
            raise ValueError("line count")
        return ts, got

    def oracle_client(self, c):
        V = lambda s: self.viol.append("%s: %s" % (c.name, s))
        grant, keep, from_idx, last, svc_phase = None, False, None, -1, False
        ci = 0
        marker = None
        ended = False
        lost_loose = 0
        for l in c.lines:
            if not l.startswith("f "):
                w = l.split(" ", 1)[0]
                if w == "eof":
                    ended = True
                    continue
                while ci < len(c.cmds) and c.cmds[ci]["kind"] == "die":
                    ci += 1
                if ci >= len(c.cmds):
                    continue
                cmd = c.cmds[ci]
                ci += 1
                if w in ("connected", "svc"):
                    m = re.match(r"(?:connected services=|svc )([0-9a-f]+)", l)
                    grant = int(m.group(1), 16) if m else 0
                    keep, from_idx, svc_phase = not c.unpaced, cmd["nrel_ack"], (w == "svc")
                    if from_idx is None:
                        from_idx = self.nrel
                elif w == "paused":
                    if not cmd.get("bounded"):
                        keep = False
                elif w == "resumed":
                    marker = cmd.get("marker")
                elif w in ("bye", "failed"):
                    ended = True
                continue
            self.cov["frames_delivered"] += 1
            if ended:
                V("frame after the end of the connection: %s" % l)
            try:
                ts, got = self.parse_frame(l)
            except (ValueError, IndexError):
                V("malformed frame line %r" % l)
                continue
            idx, rem = divmod(ts - TS0, TSSTEP)
            if rem != 0 or idx < 0 or idx >= len(self.frames):
                V("frame with timestamp %d was never captured" % ts)
                continue
            fr = self.frames[idx]
            if fr["status"] != "queued" or idx in self.discarded:
                V("got frame %d which the device did not deliver (%s)" % (idx, fr["status"]))
            if idx <= last:
                V("frame %d after frame %d (duplicate or out of order)" % (idx, last))
                continue
            if grant is None:
                V("frame %d before the connection was confirmed" % idx)
                continue
            exp = [x for x in fr["lines"] if x[0] & grant]
            if got != exp:
                weak = False
                if self.variant == "thread" and svc_phase and idx < from_idx and all(x in exp for x in got):
                    # captured under the device's previous service set, delivered after the change (acquisition thread
                    # still running between the flush of the client's queue and vbi_proxyd_stop_acq_thread): whole
                    # services may be missing, nothing else
                    missing = 0
                    for x in exp:
                        if x not in got:
                            missing |= x[0]
                    it = iter(exp)
                    weak = all(x in it for x in got) and all(x[0] & ~missing for x in got)
                if weak:
                    self.cov["svc_edge_partial"] += 1
                else:
                    V("frame %d has lines %s, expected %s (scripted %s, granted %x)" % (idx, got, exp, fr["lines"], grant))
            if keep:
                for j in range(max(last + 1, from_idx), idx):
                    if self.frames[j]["status"] == "queued" and j not in self.discarded:
                        V("lost frame %d although keeping up (got %d after %d; must-have since %d)" % (j, idx, last, from_idx))
            else:
                for j in range(max(last + 1, 0), idx):
                    if self.frames[j]["status"] == "queued" and j not in self.discarded:
                        lost_loose += 1
            last = idx
            if marker is not None and idx >= marker:
                if idx != marker:
                    V("lost the newest frame %d after resume (got %d)" % (marker, idx))
                keep, from_idx, marker = True, idx + 1, None
        return lost_loose

    def tail_start(self, c, newest):
        got = set()
        for l in c.lines:
            if l.startswith("f "):
                try:
                    got.add((int(l.split(" ", 2)[1]) - TS0) // TSSTEP)
                except ValueError:
                    pass
        t = newest + 1
        while t - 1 >= 0 and ((t - 1) in got or self.frames[t - 1]["status"] != "queued"):
            t -= 1
        return t

    def oracle(self):
        for s1, s2, newest in self.pairs:
            if s1.last_idx >= newest and s2.last_idx >= newest:
                t1, t2 = self.tail_start(s1, newest), self.tail_start(s2, newest)
                self.note("backlog after the common stall: %s from frame %d, %s from frame %d (newest %d)" % (s1.name, t1, s2.name, t2, newest))
                if t1 != t2:
                    self.viol.append("%s and %s were stalled through the same overflow period, yet their backlogs start at frames %d and %d: "
                                     "overflow took a frame from a client which did not hold the oldest one" % (s1.name, s2.name, t1, t2))
        for c in self.clients:
            lost = self.oracle_client(c)
            if any(cmd["kind"] == "pause" for cmd in c.cmds) and lost > 0:
                self.cov["overflows_observed"] += 1
            if not c.gone:
                continue
            err = c.stderr_text()
            if any(SAN_RE.search(l) for l in err.split("\n")):
                self.viol.append("%s: sanitizer report: %s" % (c.name, " | ".join(err.strip().split("\n")[:8])[-1000:]))

    # ---------------------------------------------------------------- run
    def wedged(self):
        """after a hang: does the daemon still read its device?  (its control thread answers `stat` whatever the daemon does)"""
        try:
            with self.cond:
                pos = len(self.daemon.lines)
            self.daemon.send("stat")
            end = time.monotonic() + 5
            rx = re.compile(r"^ok stat ")
            with self.cond:
                while self.dline_after(pos, rx) < 0 and time.monotonic() < end:
                    self.cond.wait(0.5)
                i = self.dline_after(pos, rx)
                if i < 0:
                    return ""
                st = self.daemon.lines[i]
            kv = dict(x.split("=") for x in st.split()[2:])
            if kv.get("open") == "1" and int(kv.get("waiting", "0")) > 0:
                return " [queue wedged: the device is open and the daemon stopped reading it, %s frames waiting]" % kv["waiting"]
        except (OSError, ValueError, KeyError):
            pass
        return ""

    def facts(self):
        out = []
        for p in [self.daemon] + self.clients:
            if p is None:
                continue
            with self.cond:
                ls = list(p.lines)
            out.append("-- %s: %d lines, eof=%s, status=%s; last: %s" % (p.name, len(ls), p.eof, p.p.poll(), " || ".join(ls[-6:])))
            e = p.stderr_text().strip()
            if e:
                out.append("-- %s stderr: %s" % (p.name, " | ".join(e.split("\n")[:15])[-1500:]))
        return out

    def execute(self):
        t0 = time.monotonic()
        primary = None
        try:
            self.start_daemon()
            getattr(self, "sched_" + self.kind)()
        except Hang as e:
            primary = "hang: " + str(e)
        except Crash as e:
            primary = "crash: " + str(e)
        finally:
            facts = []
            try:
                if primary:
                    self.note("ABORT " + primary)
                    if primary.startswith("hang") and self.daemon is not None and not self.daemon.eof:
                        primary += self.wedged()
                    # let a dying daemon finish its sanitizer report before it is killed
                    if self.daemon is not None and self.daemon.eof:
                        try:
                            self.daemon.p.wait(timeout=10)
                        except subprocess.TimeoutExpired:
                            pass
                    facts = self.facts()
            finally:
                for p in [self.daemon] + self.clients:
                    if p is not None:
                        p.kill()
                for p in [self.daemon] + self.clients:
                    if p is not None:
                        p.reap()
                try:
                    os.unlink(self.sock)
                except OSError:
                    pass
        if primary:
            if primary.startswith("crash") and self.daemon is not None:
                err = self.daemon.stderr_text()
                if self.daemon.p.returncode not in (0, None, -9) or any(SAN_RE.search(l) for l in err.split("\n")):
                    primary = "daemon crashed (exit status %s): %s; %s" % (self.daemon.p.returncode, primary,
                                                                         " | ".join(err.strip().split("\n")[:10])[-1200:])
            self.viol.insert(0, primary)
        try:
            self.oracle()
        except Exception as e:          # an oracle bug must not pass silently
            self.viol.append("oracle failed: %r" % (e,))
        self.cov["wall"] = time.monotonic() - t0
        tag = "%s/%s seed=%d" % (self.variant, self.kind, self.seed)
        lines = ["# C18 runtime stage, " + tag, "# replay: python3 lib/proxyq_mp.py --tier %s --variant %s --kind %s --schedule-seed %d -v" %
                 (self.tier, self.variant, self.kind, self.seed)] + self.log + facts
        out = []
        thread = self.variant == "thread"
        lost_rx = re.compile(r"^c\d+: lost frame \d+ although keeping up")
        race_seen = thread and any(RACE_ASSERT in v or lost_rx.search(v) for v in self.viol)
        overflow_possible = self.kind == "threadforce" or self.cov["stalls"] > 0
        for v in self.viol:
            prefix = "runtime: "
            if thread:
                # defect D6 (vbi_proxy_queue_force_free in the acquisition thread against the main thread's unlocked use of
                # req->p_sliced in vbi_proxyd_send_sliced / handle_client_sockets): message sized for one buffer and filled
                # from another (heap overflow in send_sliced), or a recycled buffer's newer frame sent in an older one's place
                if "heap-buffer-overflow" in v and "vbi_proxyd_send_sliced" in v:
                    prefix = FORCE_PREFIX
                elif overflow_possible and (re.search(r"^c\d+: frame \d+ after frame \d+ \(duplicate or out of order\)", v)
                                            or re.search(r"^c\d+: frame \d+ has lines ", v)):
                    prefix = FORCE_PREFIX
                elif self.kind == "threadforce" and RACE_ASSERT in v:
                    prefix = FORCE_PREFIX
                # defect D5 (two critical sections in vbi_proxyd_forward_data): a frame missing for a client which keeps up,
                # the queue-head assertion, and the hang which follows when the lost frame's buffer stays at the queue head
                elif RACE_ASSERT in v or lost_rx.search(v):
                    prefix = RACE_PREFIX
                elif race_seen and re.search(r"^hang: c\d+ \(keeping up\) never printed frame", v):
                    prefix = RACE_PREFIX
                elif re.search(r"^hang: c\d+ .*never printed frame .*\[queue wedged", v):
                    prefix = RACE_PREFIX
            out.append(("%s%s: %s" % (prefix, tag, v if len(v) < 700 else v[:700] + " ..."), lines))
        return out, self.cov


def build(log=print):
    exes = []
    for n in ("proxyq_mp", "proxyq_mpclient"):
        exe, err = verif.build_harness(n)
        if exe is None:
            raise RuntimeError("build of harness/%s.c failed:\n%s" % (n, err))
        exes.append(exe)
    return tuple(exes)


def plan(tier, seed, variants, kinds):
    """list of (variant, kind, seed).
    quick:    every ordinary kind on the select variant, 2 seeds; of the thread variant only the two on-demand
              schedules `threadrace` and `threadforce` (the acquisition-thread path has timing-dependent defects which
              would make a quick check flicker; they are asked for deterministically instead)
    thorough: every ordinary kind on both variants, 10 seeds, plus the two on-demand schedules"""
    jobs = []
    base = [k for k in (kinds or KINDS) if k not in ("threadrace", "threadforce")]
    reps = 2 if tier == "quick" else 10
    mul = 10 if tier == "quick" else 1000
    for rep in range(reps):
        for v in variants:
            if tier == "quick" and v == "thread" and kinds is None:
                continue
            for k in base:
                jobs.append((v, k, seed * mul + rep))
    for k in ("threadrace", "threadforce"):
        if "thread" in variants and (kinds is None or k in kinds):
            jobs.append(("thread", k, seed * mul))
    return jobs


def run_runtime_stage(tier, seed, log=print, variants=("select", "thread"), kinds=None, jobs=None, schedule=None, race_us=0):
    """schedule=(variant, kind, schedule_seed) runs exactly that one schedule (replay)"""
    t0 = time.monotonic()
    exes = build(log)
    todo = [tuple(schedule)] if schedule else plan(tier, seed, variants, kinds)
    if jobs is None:
        jobs = 3
    violations, cov = [], {}
    cov["schedules_select"] = cov["schedules_thread"] = 0

    def one(j):
        v, k, s = j
        return j, Run(exes, v, k, s, tier, race_us).execute()
    with concurrent.futures.ThreadPoolExecutor(max_workers=jobs) as ex:
        for j, (viol, c) in ex.map(one, todo):
            cov["schedules_" + j[0]] += 1
            for key, val in c.items():
                if key != "wall":
                    cov[key] = cov.get(key, 0) + val
            violations += viol
            log("  %-6s %-11s seed=%-6d %5.1fs  frames %d/%d  %s" % (j[0], j[1], j[2], c["wall"], c["frames_released"],
                                                                   c["frames_delivered"], "VIOLATION" if viol else "ok"))
    cov["wall_seconds"] = round(time.monotonic() - t0, 1)
    return violations, cov


def main():
    ap = argparse.ArgumentParser()
    ap.add_argument("--tier", default="quick", choices=["quick", "thorough"])
    ap.add_argument("--seed", type=int, default=1)
    ap.add_argument("--variant", choices=["select", "thread"])
    ap.add_argument("--kind", choices=KINDS)
    ap.add_argument("--schedule-seed", type=int, help="with --variant and --kind: run exactly this one schedule (replay)")
    ap.add_argument("--repeat", type=int, default=1)
    ap.add_argument("--jobs", type=int)
    ap.add_argument("--race-us", type=int, default=0, help="delay injection in every thread-variant schedule (debugging aid)")
    ap.add_argument("-v", action="store_true")
    a = ap.parse_args()
    bad = 0
    for r in range(a.repeat):
        viol, cov = run_runtime_stage(a.tier, a.seed + r, log=print if a.v else (lambda *x: None),
                                      variants=(a.variant,) if a.variant else ("select", "thread"),
                                      kinds=[a.kind] if a.kind else None, jobs=a.jobs, race_us=a.race_us,
                                      schedule=(a.variant, a.kind, a.schedule_seed) if a.schedule_seed is not None and a.variant and a.kind else None)
        print("seed %d: %d violation(s); %s" % (a.seed + r, len(viol), " ".join("%s=%s" % kv for kv in sorted(cov.items()))))
        for what, lines in viol:
            print("VIOLATION " + what)
            if a.v or len(viol) <= 3 or what.startswith("runtime: "):
                for l in lines:
                    print("    " + l)
        bad += len(viol)
    sys.exit(1 if bad else 0)


if __name__ == "__main__":
    main()
