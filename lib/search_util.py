"""Generator side of the C17 check (component `search`): Teletext packets for pages (sender side, from
lib/ttxenc.py), the pre-pass that asks the real formatter how a transmitted page is displayed, and the
case generators.  Nothing here looks at libzvbi's search or cache code."""
import os, sys
sys.path.insert(0, os.path.dirname(os.path.abspath(__file__)))
import ttxenc as T

HDR = "ZVBI 1234 test"
ANY = 0x3F7F


def page_packets(pgno, subcode, rows, flags=T.C4_ERASE, terminate=True):
    """rows: list of (y, text) with text a str (7-bit codes, control codes allowed) or list of 40 bytes"""
    mag = (pgno >> 8) & 7
    out = [T.hx(T.header(mag, pgno & 0xFF, subcode, flags, 0, HDR))]
    for y, s in rows:
        out.append(T.hx(T.row(mag, y, s)))
    if terminate:
        out.append(T.hx(T.header(mag, 0xFF, 0, 0, 0, HDR)))   # time filling header closes the page
    return ",".join(out)


def mip_packets(mag):
    """MIP page mFD declaring every hex page of the magazine a normal single page (code 0x01), so that the
    decoder treats pages with hex digits as level one pages"""
    pgno = (mag if mag else 8) * 0x100 + 0xFD
    m = mag & 7
    out = [T.hx(T.header(m, 0xFD, 0, T.C4_ERASE, 0, HDR))]
    for pk in range(6, 15):      # packets 6-8: pages A0..F9, packets 9-14: pages xA..xF
        body = []
        for _ in range(20):
            body += T.ham16(0x01)
        out.append(T.hx(T.addr(m, pk) + body))
    out.append(T.hx(T.header(m, 0xFF, 0, 0, 0, HDR)))
    return ",".join(out)


def pat_hex(s):
    return "".join("%04x" % (ord(c) if isinstance(c, str) else c) for c in s) or "-"


def fnv(s):
    h = 2166136261
    for b in s.encode():
        h = ((h ^ b) * 16777619) & 0xFFFFFFFF
    return h


def parse_rowspec(rs):
    """-> dict row -> list of 41 (unicode, size)"""
    rows = {}
    if rs in ("-", "!fmt"):
        return rows
    for part in rs.split(";"):
        y, cells = part.split(":")
        rows[int(y)] = [(int(cells[i:i + 4], 16), int(cells[i + 4], 16)) for i in range(0, len(cells), 5)]
    return rows


class Put:
    """a page to transmit; becomes a `put` line once the pre-pass has told how it is displayed"""
    def __init__(self, pgno, subcode, rows, flags=T.C4_ERASE):
        subcode &= 0x3F7F     # the header carries 13 bits S1..S4
        self.pgno, self.subcode, self.rows, self.flags = pgno, subcode, rows, flags
        self.packets = page_packets(pgno, subcode, rows, flags)

    def rows_text(self):
        """the transmitted row texts joined by newlines (generator-side inspection only)"""
        return "\n".join(t if isinstance(t, str) else "".join(chr(b & 0x7F) for b in t) for _, t in self.rows)


def resolve(cases, run_harness):
    """cases: lists whose items are op strings or Put objects.  Runs the real code once over the
    transmissions (feed + fmt) and returns the final op-line cases."""
    pre = []
    for c in cases:
        lines = []
        for it in c:
            if isinstance(it, Put):
                lines.append("feed " + it.packets)
                lines.append("fmt 0x%x" % it.pgno)
            else:
                t = it.split()
                if t and t[0] in ("feed", "chsw"):
                    lines.append(it)
        pre.append(lines)
    outs = run_harness(pre)
    final = []
    for ci, c in enumerate(cases):
        o = outs.get(ci, [])
        k = 0
        lines = []
        for it in c:
            if isinstance(it, Put):
                ans = o[k + 1].split() if k + 1 < len(o) else ["ok", "none"]
                k += 2
                if len(ans) >= 4 and ans[0] == "ok":
                    func, rs = ans[2], ans[3]
                else:
                    func, rs = "-9", "-"      # not stored: the final run will say FMTDIFF
                lines.append("put 0x%x 0x%x %s %s %s" % (it.pgno, it.subcode, func, rs, it.packets))
            else:
                t = it.split()
                if t and t[0] in ("feed", "chsw"):
                    k += 1
                lines.append(it)
        final.append(lines)
    return final
