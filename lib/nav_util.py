"""Navigation stage of C01: vbi_format_vt_page() at Level 1 with `display_rows` and `navigation` (zap_links, keyword,
flof_links, flof_navigation_bar of src/teletext.c) on generated page contents, the model (`zvbi_model nav`,
lean/ZvbiModel/Nav/Page.lean on top of Nav/Model.lean) against the real code (harness/nav_harness.c), diffed line by line.

  gen_case(rng, cov=None) -> list of op lines (one `nav` op)
  nav_stage(ctx, prop="C01", only=None, n=None) -> (list of (what, case_ops), coverage dict)

Op:  nav <rows> <navflag> <region> <pgno> <subno> <flags> <national> <haveflof> <has24> <l0> .. <l5> <hex1000>
A `?` printed by the model for a link bit (zap_links stores `link[len]`, an automatic variable that was never written,
when the last cells of a row are OVER_TOP / OVER_BOTTOM) is masked on both sides."""
import os, re, sys, time
sys.path.insert(0, os.path.dirname(os.path.abspath(__file__)))
import verif
import ttxenc as T
import fmt_util as F

REGIONS = [0, 0, 0, 0, 8, 16, 24, 32, 33, 36, 48, 55, 64, 71, 85, 87]
FLOF_COLOURS = [1, 2, 3, 6]
LABELS = ["Next", "Sport", "TV", "Index", "News 101", "100", "<<", ">>", "A-Z", "Wetter", "p.200", "x", ""]
HOSTS = ["x.yz", "a.b", "zdf.de", "bbc.co.uk", "a-b.c_d.ef", "x.y/z?q=1&r=2", "a.b.", "a..b", ".a.b", "x", "x.", "1.2.3.4",
         "foo.bar/~me", "a.b:80/c;d", "q%20.r+s", "A.B", "x.y@z"]
USERS = ["a", "me", "info", "x.y", "a-b", "a_b", "a~b", "1", "Q", ".", "-", "a.b.c"]


def _digits(rng, n):
    return "".join(rng.choice("0123456789") for _ in range(n))


def _frag(rng, subno, kinds):
    """one adversarial text fragment; control codes are chr(0..31)"""
    k = rng.choice(["digits", "digits", "digits", "sub", "sub", "arrow", "www", "http", "https", "ftp", "email", "atparen",
                    "loneat", "dots", "ctrl", "word", "page", "page", "longrun", "prefixonly", "mix"])
    kinds[k] = kinds.get(k, 0) + 1
    if k == "digits":
        return _digits(rng, rng.randrange(1, 13))
    if k == "page":
        return rng.choice(["100", "899", "900", "099", "0100", "1000", "89a", "8990", "199", "777", "1oo", "%03d" % rng.randrange(1000)])
    if k == "longrun":
        return rng.choice(["1234567890", "123456789012", "1234", "12345", "0000000000000"])
    if k == "sub":
        sx = "%x" % (subno & 0xFF)
        a = rng.choice([sx, sx, "%x" % subno, "1", "2", "12", "01", _digits(rng, rng.randrange(1, 3))])
        b = rng.choice(["1", "2", "3", "9", "12", "99", "100", "", "a", _digits(rng, rng.randrange(1, 6))])
        return a + rng.choice("/:/:-") + b
    if k == "arrow":
        return rng.choice([">>", ">", ">>>", "<<", ">>100", "100>>"])
    if k == "www":
        return rng.choice(["www.", "WWW.", "Www.", "www", "ww.", "wwww."]) + rng.choice(HOSTS)
    if k == "http":
        return rng.choice(["http://", "HTTP://", "http:/", "http:", "http//", "hhttp://"]) + rng.choice(HOSTS)
    if k == "https":
        return rng.choice(["https://", "HTTPS://", "https:/", "https"]) + rng.choice(HOSTS + [""])
    if k == "ftp":
        return rng.choice(["ftp://", "FTP://", "ftp:/", "ftp."]) + rng.choice(HOSTS)
    if k == "email":
        return rng.choice(USERS) + rng.choice(["@", "@", "@@", " @", "@ "]) + rng.choice(HOSTS)
    if k == "atparen":
        return rng.choice(USERS + [""]) + rng.choice(["(at)", "(AT)", "(a)", "(A)", "(at", "(a", "at)", " (at)", "(at) "]) + rng.choice(HOSTS)
    if k == "loneat":
        return rng.choice(["@", " @ ", "@.", ".@.", "@a", "a@", "a@b", "@a.b", "(at)", "(a)"])
    if k == "dots":
        return "." * rng.randrange(1, 6)
    if k == "prefixonly":
        return rng.choice(["www.", "http://", "https://", "ftp://", "www..", "http://.", "www.a", "www.a."])
    if k == "ctrl":
        return "".join(chr(rng.randrange(0x20)) for _ in range(rng.randrange(1, 4)))
    if k == "mix":
        return rng.choice(["100-199", "100/200", "1/2/3", "12:30", "12.30", "20:15", "3/4", "100.", ".100", "100,200,300",
                           "p100", "100p", "S.100", "1 2 3", "10 20", "1/", "/1", ":", "1:", "tel 0800/123456"])
    return "".join(rng.choice("abcdefghijklmnopqrstuvwxyzABCXYZ") for _ in range(rng.randrange(1, 8)))


def _codes(s):
    return [ord(c) & 0x7F for c in s]


def _text_row(rng, subno, kinds):
    s = ""
    if rng.random() < 0.5:
        s = rng.choice(["", " ", "  ", chr(rng.randrange(8))])
    while len(s) < 46:
        s += _frag(rng, subno, kinds)
        s += rng.choice(["", " ", " ", " ", "  ", ".", ",", chr(rng.randrange(0x20)), "/", ":"])
    align = rng.random()
    if align < 0.4:
        s = s[:40]
    elif align < 0.8:
        s = s[-40:]                       # a fragment ends exactly in column 39
    else:
        f = _frag(rng, subno, kinds)[:40]
        s = (s[:40 - len(f)] + f) if rng.random() < 0.5 else (f + s[:40 - len(f)])
    return _codes(s.ljust(40))[:40]


def _flof_row(rng, kinds):
    kinds["flofrow"] = kinds.get("flofrow", 0) + 1
    out = []
    cols = list(FLOF_COLOURS)
    if rng.random() < 0.3:
        rng.shuffle(cols)
    if rng.random() < 0.3:
        cols = [rng.choice([1, 2, 3, 6, 6, 4, 5, 7, 0]) for _ in range(rng.randrange(1, 7))]
    if rng.random() < 0.2:
        out += _codes(rng.choice(["", " ", "ab", "  x "]))
    for c in cols:
        code = c if rng.random() < 0.9 else 0x10 + c
        lab = rng.choice(LABELS)
        out += [code] + _codes(rng.choice(["", " ", "  "]) + lab + rng.choice(["", " ", "  ", "   "]))
    out = out[:40]
    while len(out) < 40:
        out.append(0x20)
    if rng.random() < 0.15:
        out[39] = rng.choice(FLOF_COLOURS)
    if rng.random() < 0.1:
        out[0] = 0x20
    return out


def _overlay(rng, row, r, kinds):
    """control codes in arbitrary columns, sizes at the row ends"""
    def put(col, code, kind):
        row[col] = code
        kinds[kind] = kinds.get(kind, 0) + 1
    if rng.random() < 0.25:
        for _ in range(rng.randrange(1, 4)):
            put(rng.randrange(40), rng.randrange(0x20), "ctrl-any")
    if rng.random() < 0.15:
        put(rng.choice([38, 39]), rng.randrange(0x20), "ctrl-last2")
    if rng.random() < 0.12:
        put(rng.choice([0, 1, 37, 38, 38, 37, rng.randrange(40)]), 0x0E, "dw")
        if rng.random() < 0.5:
            c = rng.randrange(40)
            put(c, 0x0C, "normal-size")
    if rng.random() < (0.3 if r in (21, 22, 23, 24) else 0.07):
        put(rng.choice([0, 1, 37, 38, 39, rng.randrange(40), rng.randrange(40)]), rng.choice([0x0D, 0x0F, 0x0F]), "dh-ds")
    if rng.random() < 0.05:
        c = rng.randrange(39)
        code = rng.choice([0x0A, 0x0B])
        row[c] = code; put(c + 1, code, "box")
    if rng.random() < 0.05:
        put(rng.randrange(40), 0x1B, "esc")
    if rng.random() < 0.08:
        c = rng.randrange(38)
        put(c, 0x10 + rng.randrange(8), "mosaic")
        if rng.random() < 0.6:
            row[c + 1] = rng.choice([0x1E, 0x7F, 0x35])
            if rng.random() < 0.5:
                row[c + 2] = 0x1E
    # specials of the brief
    k = rng.random()
    if k < 0.03:
        row[36:40] = _codes(rng.choice(["www.", "WWW.", "ww.a", "w.ab"])); kinds["www-36"] = kinds.get("www-36", 0) + 1
    elif k < 0.06:
        put(rng.choice([0, 39]), 0x40, "at-edge")
    elif k < 0.10:
        n = rng.randrange(1, 6)
        row[40 - n:40] = _codes(_digits(rng, n)); kinds["digits-end"] = kinds.get("digits-end", 0) + 1
    elif k < 0.12:
        n = rng.randrange(1, 6)
        row[0:n] = _codes(_digits(rng, n)); kinds["digits-start"] = kinds.get("digits-start", 0) + 1
    elif k < 0.14:
        s = rng.choice(["a@b.cd", "www.a.b", "http://a.b", "x(at)y.z", "ftp://x.y", "1/2", "100"])
        row[40 - len(s):40] = _codes(s); kinds["link-end"] = kinds.get("link-end", 0) + 1
    elif k < 0.16:
        s = rng.choice(["a@b.cd", "@b.cd", "(at)y.z", "www.a.b", "100", "1/2", ".@a.b"])
        row[0:len(s)] = _codes(s); kinds["link-start"] = kinds.get("link-start", 0) + 1


def gen_rows(rng, subno, kinds):
    rows = []
    page_kind = rng.choice(["frag", "frag", "frag", "mixed", "fmt"])
    for r in range(25):
        k = rng.random()
        if page_kind == "fmt":
            row = F.gen_row(rng)
        elif k < 0.70 or (page_kind == "frag" and k < 0.85):
            row = _text_row(rng, subno, kinds)
        elif k < 0.80:
            kinds["digitrow"] = kinds.get("digitrow", 0) + 1
            row = _codes(_digits(rng, 40))
            if rng.random() < 0.5:
                for _ in range(rng.randrange(1, 12)):
                    row[rng.randrange(40)] = ord(rng.choice(" /:. "))
        elif k < 0.84:
            kinds["row7f"] = kinds.get("row7f", 0) + 1
            row = [0x7F] * 40
        elif k < 0.88:
            row = F.gen_row(rng)
        elif k < 0.93:
            # grammar-free: the characters keyword() tests for, in random order
            kinds["soup"] = kinds.get("soup", 0) + 1
            alpha = rng.choice(["w.@a1/: ", "w.@(at)/:1290 -~_htps&f", "@.ab ", "0123456789/: ", "w. ", "(at).@x ", "htp:/.wf s"])
            row = [ord(rng.choice(alpha)) for _ in range(40)]
        elif k < 0.95:
            row = [0x20] * 40
        else:
            row = [rng.randrange(128) for _ in range(40)]
        _overlay(rng, row, r, kinds)
        rows.append(row)
    if rng.random() < 0.7:
        rows[24] = _flof_row(rng, kinds)
        if rng.random() < 0.2:
            _overlay(rng, rows[24], 24, kinds)
    return rows


def _link(rng):
    pg = rng.choice([0x100, 0x101, 0x1FF, 0x8FF, 0x899, 0x89A, 0x1AB, 0xABC & 0x8FF, 0x8AF, 0x2FF, 0x7FE, 0x19A, 0x1A9,
                     rng.randrange(0x100, 0x900), rng.randrange(0x100, 0x900), rng.randrange(0x100, 0x900),
                     0x0FF, 0xFFF, 0x000, 0x099, 0x900])
    sn = rng.choice([0x3F7F, 0x3F7F, 0, 1, 0xFFFF, rng.randrange(0x10000)])
    return "0x%x:0x%x" % (pg, sn)


def gen_case(rng, cov=None):
    """one `nav` op; cov (optional dict) counts the fragment kinds used"""
    kinds = {}
    rows_n = rng.choice([25, 25, 25, 25, 25, 25, 24, 23, 5, 2, 1, rng.randrange(1, 26)])
    navflag = 0 if rng.random() < 0.06 else 1
    region = rng.choice(REGIONS + [rng.randrange(88)])
    pgno = rng.choice([0x100, 0x899, 0x8FF, 0x1AB, rng.randrange(0x100, 0x900)])
    subno = rng.choice([0, 1, 1, 2, 0x12, 0x79, 0x99, 0x3F7F, rng.randrange(0x4000) & 0x3F7F])
    flags = subno
    for bit, pr in ((0x80, .1), (0x4000, .08), (0x8000, .08), (0x10000, .08), (0x20000, .1), (0x40000, .05),
                    (0x80000, .05), (0x100000, .2)):
        if rng.random() < pr:
            flags |= bit
    nat = rng.choice([0, 0, 0, 1, 1, rng.randrange(8)])
    rows = gen_rows(rng, subno, kinds)
    raw = []
    bad = rng.random() < 0.5
    pr = rng.uniform(0.02, 0.05)
    for r in rows:
        for c in r:
            b = T.par(c)
            if bad and rng.random() < pr:
                b ^= 0x80
            raw.append(b)
    if bad:
        kinds["badparity"] = 1
    if rng.random() < 0.02:
        raw = [rng.randrange(256) for _ in range(1000)]
        kinds["randombytes"] = 1
    haveflof = 1 if rng.random() < 0.8 else 0
    has24 = 1 if rng.random() < 0.6 else 0
    links = " ".join(_link(rng) for _ in range(6))
    if cov is not None:
        for k in kinds:
            cov[k] = cov.get(k, 0) + 1
        cov["rows=%d" % rows_n] = cov.get("rows=%d" % rows_n, 0) + 1
        cov["flof-links" if (haveflof and has24) else "flof-bar" if haveflof else "no-flof"] = \
            cov.get("flof-links" if (haveflof and has24) else "flof-bar" if haveflof else "no-flof", 0) + 1
    ops = ["nav %d %d %d 0x%x 0x%x 0x%x %d %d %d %s %s" % (rows_n, navflag, region, pgno, subno, flags, nat,
                                                          haveflof, has24, links, T.hx(raw))]
    if rng.random() < 0.04:                       # a malformed op behind it: both sides must reject it the same way
        t = ops[0].split()
        i, v = rng.choice([(1, "0"), (1, "26"), (2, "2"), (3, "88"), (4, "0xff"), (4, "0x900"), (5, "0x3f80"), (7, "8"),
                           (8, "2"), (9, "-1"), (10, "0x100"), (12, "0x1000:0"), (15, "1:2:3"), (16, t[16][:-2]), (16, t[16][:-1]),
                           (16, "-"), (0, "navx")])
        t[i] = v
        ops.append(" ".join(t if rng.random() < 0.8 else t[:-1]))
        if cov is not None:
            cov["malformed-op"] = cov.get("malformed-op", 0) + 1
    return ops


def is_nav(lines):
    return bool(lines) and lines[0].split()[:1] == ["nav"]


def _mask(m, o):
    """positions where the model prints `?` (an indeterminate link bit) are masked on both sides"""
    if "?" not in m or len(m) != len(o):
        return m, o, 0
    idx = [i for i, ch in enumerate(m) if ch == "?"]
    ol = list(o)
    for i in idx:
        ol[i] = "?"
    return m, "".join(ol), len(idx)


def _stats(line):
    """(cells with the link bit set, distinct nav_index values) of an `ok` line"""
    if not line.startswith("ok ") or " | " not in line:
        return 0
    cells = line[3:].split(" | ")[0].replace(",", "")
    return sum(1 for i in range(5, len(cells), 6) if cells[i] == "1")


def nav_stage(ctx, prop="C01", only=None, n=None):
    """correspondence model ~ real code on `nav` ops.  ctx: dict with "tier", "rng", "mcmd".
    only: list of cases to run instead of corpus + generated (replay); n: number of generated cases (default by tier).
    -> (violations: list of (what, case_ops), coverage dict)"""
    t0 = time.time()
    exe, err = verif.build_harness("nav_harness")
    if exe is None:
        return [("nav harness build failed: " + err[-400:], [])], {"cases": 0}
    tier, rng = ctx.get("tier", "quick"), ctx["rng"]
    cases, kinds, frag = [], [], {}
    if only is not None:
        cases, kinds = list(only), ["replay"] * len(only)
    else:
        for f, lines in verif.corpus_cases(prop):
            if f.startswith("nav-") and is_nav(lines):
                cases.append(lines); kinds.append("corpus:" + f)
        if n is None:
            n = 400 if tier == "quick" else 4000
        for _ in range(n):
            cases.append(gen_case(rng, frag)); kinds.append("gen")
    mout, minc = verif.run_side(ctx["mcmd"][:1] + ["nav"], cases, 5.0)
    iout, iinc = verif.run_side([exe], cases, 5.0)
    out = []
    for x in minc[:3]:
        out.append(("nav: model driver %s" % x["kind"], cases[x["case"]]))
    inc = {x["case"]: x for x in iinc}
    validated = disagreements = masked = masked_cases = faults = linked_cells = linked_cases = ops = 0
    for i, c in enumerate(cases):
        m, o = list(mout.get(i, [])), list(iout.get(i, []))
        if i in inc:
            det = inc[i]["detail"]
            sm = verif.summarize_san(det)
            out.append(("nav: %s of the real code: %s [model: %s]" % (inc[i]["kind"], sm, (m[len(o)][:40] if len(m) > len(o) else "-")), c))
            disagreements += 1
            continue
        if len(o) != len(c):
            out.append(("nav: incomplete output of the harness (%d of %d ops)" % (len(o), len(c)), c))
            disagreements += 1
            continue
        f = next((l for l in m if l.startswith("fault")), None)
        if f is not None:
            faults += 1
            disagreements += 1
            out.append(("nav correspondence model~code: the model predicts `%s`, the real code ran on" % f, c))
            continue
        nm = 0
        for j in range(min(len(m), len(o))):
            m[j], o[j], k = _mask(m[j], o[j])
            nm += k
        masked += nm
        masked_cases += 1 if nm else 0
        d = verif.first_diff(o, m)
        if d is not None:
            disagreements += 1
            if disagreements <= 5:
                a, b = d[1], d[2]
                p = next((k for k in range(min(len(a), len(b))) if a[k] != b[k]), min(len(a), len(b)))
                where = ""
                if a.startswith("ok ") and p >= 3:
                    cell = (p - 3)
                    rowi, rest = cell // 241, cell % 241
                    where = " (row %d col %d)" % (rowi, rest // 6) if rowi < 25 else " (nav part)"
                out.append(("nav correspondence model~code: op#%d char %d%s impl `%s` model `%s`"
                            % (d[0], p, where, a[max(0, p - 12):p + 12], b[max(0, p - 12):p + 12]), c))
            continue
        validated += 1
        ops += len(c)
        lc = sum(_stats(l) for l in o)
        linked_cells += lc
        linked_cases += 1 if lc else 0
    cov = {"cases": len(cases), "corpus_cases": sum(1 for k in kinds if k.startswith("corpus")), "ops": ops,
           "validated": validated, "disagreements": disagreements, "model_faults": faults,
           "indeterminate_link_bits_masked": masked, "cases_with_masked_bits": masked_cases,
           "cases_with_links": linked_cases, "cells_with_link_bit": linked_cells,
           "pages_with_fragment_kind": dict(sorted(frag.items())), "wall_s": round(time.time() - t0, 1)}
    uniq, res = set(), []
    for w, c in out:
        sg = re.sub(r"\d+", "N", w)[:90]
        if sg not in uniq:
            uniq.add(sg)
            res.append((w, c))
    return res, cov


if __name__ == "__main__":
    import random, json
    seed = int(sys.argv[1]) if len(sys.argv) > 1 else 1
    cnt = int(sys.argv[2]) if len(sys.argv) > 2 else 400
    ctx = {"tier": "quick", "rng": random.Random(seed), "mcmd": [verif.model_exe()]}
    v, cov = nav_stage(ctx, n=cnt)
    for w, c in v:
        print("VIOLATION", w)
        open("/tmp/nav_fail_%d.ops" % (abs(hash(w)) % 100000), "w").write("\n".join(c) + "\n")
    print(json.dumps(cov, indent=1))
