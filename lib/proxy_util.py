#!/usr/bin/env python3
"""Helpers of component `proxy` (C19): layout probe of the proxy protocol, message encoder (sender spec),
decoder of harness output lines.  Used by translate/gen_proxy.py and checks/C19.py.

The layout (sizeof of each message body, field offsets, enum values, ioctl table) is never typed by hand: a C probe is
compiled against the current tree ($ZVBI_REPO or /repo) and run; the result is cached by a hash of the sources it reads.
"""
import hashlib, json, os, re, struct, subprocess, tempfile

REPO = os.environ.get("ZVBI_REPO", "/repo")
HERE = os.path.dirname(os.path.abspath(__file__))
CACHE = os.path.join(HERE, "..", ".cache")

PROBE = r'''
#include <stdio.h>
#include <stddef.h>
#define main static zvbid_main
#include "daemon/proxyd.c"
#undef main
#include "src/proxy-msg.c"
#define S(n, e) printf("%s %lld\n", n, (long long)(e))
#define OFF(t, f) (long long) offsetof(t, f)
int main(void)
{
  VBIPROXY_MSG_BODY *b = 0; int api; unsigned ty, nr, dir, sz;
  S("hdr", sizeof(VBIPROXY_MSG_HEADER)); S("msg", sizeof(VBIPROXY_MSG));
  S("sz_connect_req", sizeof b->connect_req); S("sz_connect_cnf", sizeof b->connect_cnf); S("sz_connect_rej", sizeof b->connect_rej);
  S("sz_service_req", sizeof b->service_req); S("sz_service_cnf", sizeof b->service_cnf); S("sz_service_rej", sizeof b->service_rej);
  S("sz_token_req", sizeof b->chn_token_req); S("sz_token_cnf", sizeof b->chn_token_cnf); S("sz_token_ind", sizeof b->chn_token_ind);
  S("sz_notify_req", sizeof b->chn_notify_req); S("sz_notify_cnf", sizeof b->chn_notify_cnf);
  S("sz_suspend_req", sizeof b->chn_suspend_req); S("sz_suspend_rej", sizeof b->chn_suspend_rej);
  S("sz_ioctl_req", sizeof b->chn_ioctl_req); S("sz_ioctl_cnf", sizeof b->chn_ioctl_cnf); S("sz_ioctl_rej", sizeof b->chn_ioctl_rej);
  S("sz_reclaim_req", sizeof b->chn_reclaim_req); S("sz_reclaim_cnf", sizeof b->chn_reclaim_cnf);
  S("sz_change_ind", sizeof b->chn_change_ind); S("sz_pid_req", sizeof b->daemon_pid_req); S("sz_pid_cnf", sizeof b->daemon_pid_cnf);
  S("sz_sliced_hdr", VBIPROXY_SLICED_IND_SIZE(0, 0)); S("sz_sliced_line", sizeof(vbi_sliced));
  S("sz_time_t", sizeof(time_t));
  S("o_magic_compat", OFF(VBIPROXY_MAGICS, protocol_compat_version)); S("o_magic_version", OFF(VBIPROXY_MAGICS, protocol_version));
  S("o_magic_endian", OFF(VBIPROXY_MAGICS, endian_magic)); S("magic_len", VBIPROXY_MAGIC_LEN);
  S("o_con_name", OFF(VBIPROXY_CONNECT_REQ, client_name)); S("o_con_pid", OFF(VBIPROXY_CONNECT_REQ, pid));
  S("o_con_flags", OFF(VBIPROXY_CONNECT_REQ, client_flags)); S("o_con_scanning", OFF(VBIPROXY_CONNECT_REQ, scanning));
  S("o_con_bufcnt", OFF(VBIPROXY_CONNECT_REQ, buffer_count)); S("o_con_services", OFF(VBIPROXY_CONNECT_REQ, services));
  S("o_con_strict", OFF(VBIPROXY_CONNECT_REQ, strict));
  S("sz_con_strict", sizeof(((VBIPROXY_CONNECT_REQ *)0)->strict)); S("sz_con_bufcnt", sizeof(((VBIPROXY_CONNECT_REQ *)0)->buffer_count));
  S("o_svc_reset", OFF(VBIPROXY_SERVICE_REQ, reset)); S("o_svc_commit", OFF(VBIPROXY_SERVICE_REQ, commit));
  S("o_svc_strict", OFF(VBIPROXY_SERVICE_REQ, strict)); S("o_svc_services", OFF(VBIPROXY_SERVICE_REQ, services));
  S("sz_svc_strict", sizeof(((VBIPROXY_SERVICE_REQ *)0)->strict));
  S("o_tok_prio", OFF(VBIPROXY_CHN_TOKEN_REQ, chn_prio)); S("o_tok_valid", OFF(VBIPROXY_CHN_TOKEN_REQ, chn_profile.is_valid));
  S("o_tok_subprio", OFF(VBIPROXY_CHN_TOKEN_REQ, chn_profile.sub_prio)); S("o_tok_mindur", OFF(VBIPROXY_CHN_TOKEN_REQ, chn_profile.min_duration));
  S("o_tok_expdur", OFF(VBIPROXY_CHN_TOKEN_REQ, chn_profile.exp_duration));
  S("o_ntf_flags", OFF(VBIPROXY_CHN_NOTIFY_REQ, notify_flags)); S("o_ntf_scanning", OFF(VBIPROXY_CHN_NOTIFY_REQ, scanning));
  S("o_ioc_request", OFF(VBIPROXY_CHN_IOCTL_REQ, request)); S("o_ioc_argsize", OFF(VBIPROXY_CHN_IOCTL_REQ, arg_size));
  S("o_ioc_argdata", OFF(VBIPROXY_CHN_IOCTL_REQ, arg_data)); S("ioctl_req_size0", VBIPROXY_CHN_IOCTL_REQ_SIZE(0));
  S("ioctl_cnf_size0", VBIPROXY_CHN_IOCTL_CNF_SIZE(0));
  S("endian_magic", VBIPROXY_ENDIAN_MAGIC); S("endian_mismatch", VBIPROXY_ENDIAN_MISMATCH);
  S("compat_version", VBIPROXY_COMPAT_VERSION); S("version", VBIPROXY_VERSION);
  S("t_CONNECT_REQ", MSG_TYPE_CONNECT_REQ); S("t_CONNECT_CNF", MSG_TYPE_CONNECT_CNF); S("t_CONNECT_REJ", MSG_TYPE_CONNECT_REJ);
  S("t_CLOSE_REQ", MSG_TYPE_CLOSE_REQ); S("t_SLICED_IND", MSG_TYPE_SLICED_IND); S("t_SERVICE_REQ", MSG_TYPE_SERVICE_REQ);
  S("t_SERVICE_CNF", MSG_TYPE_SERVICE_CNF); S("t_SERVICE_REJ", MSG_TYPE_SERVICE_REJ); S("t_CHN_TOKEN_REQ", MSG_TYPE_CHN_TOKEN_REQ);
  S("t_CHN_TOKEN_CNF", MSG_TYPE_CHN_TOKEN_CNF); S("t_CHN_TOKEN_IND", MSG_TYPE_CHN_TOKEN_IND); S("t_CHN_NOTIFY_REQ", MSG_TYPE_CHN_NOTIFY_REQ);
  S("t_CHN_NOTIFY_CNF", MSG_TYPE_CHN_NOTIFY_CNF); S("t_CHN_RECLAIM_REQ", MSG_TYPE_CHN_RECLAIM_REQ); S("t_CHN_RECLAIM_CNF", MSG_TYPE_CHN_RECLAIM_CNF);
  S("t_CHN_SUSPEND_REQ", MSG_TYPE_CHN_SUSPEND_REQ); S("t_CHN_SUSPEND_CNF", MSG_TYPE_CHN_SUSPEND_CNF); S("t_CHN_SUSPEND_REJ", MSG_TYPE_CHN_SUSPEND_REJ);
  S("t_CHN_IOCTL_REQ", MSG_TYPE_CHN_IOCTL_REQ); S("t_CHN_IOCTL_CNF", MSG_TYPE_CHN_IOCTL_CNF); S("t_CHN_IOCTL_REJ", MSG_TYPE_CHN_IOCTL_REJ);
  S("t_CHN_CHANGE_IND", MSG_TYPE_CHN_CHANGE_IND); S("t_DAEMON_PID_REQ", MSG_TYPE_DAEMON_PID_REQ); S("t_DAEMON_PID_CNF", MSG_TYPE_DAEMON_PID_CNF);
  S("t_COUNT", MSG_TYPE_COUNT);
  S("tok_NONE", REQ_TOKEN_NONE); S("tok_RECLAIM", REQ_TOKEN_RECLAIM); S("tok_RELEASE", REQ_TOKEN_RELEASE); S("tok_GRANT", REQ_TOKEN_GRANT);
  S("tok_GRANTED", REQ_TOKEN_GRANTED); S("tok_RETURNED", REQ_TOKEN_RETURNED);
  S("controls_GRANTED", REQ_CONTROLS_CHN(REQ_TOKEN_GRANTED)); S("controls_RETURNED", REQ_CONTROLS_CHN(REQ_TOKEN_RETURNED));
  S("controls_NONE", REQ_CONTROLS_CHN(REQ_TOKEN_NONE)); S("controls_RECLAIM", REQ_CONTROLS_CHN(REQ_TOKEN_RECLAIM));
  S("controls_RELEASE", REQ_CONTROLS_CHN(REQ_TOKEN_RELEASE)); S("controls_GRANT", REQ_CONTROLS_CHN(REQ_TOKEN_GRANT));
  S("st_WAIT_CON_REQ", REQ_STATE_WAIT_CON_REQ); S("st_WAIT_CLOSE", REQ_STATE_WAIT_CLOSE); S("st_FORWARD", REQ_STATE_FORWARD); S("st_CLOSED", REQ_STATE_CLOSED);
  S("prio_BACKGROUND", VBI_CHN_PRIO_BACKGROUND); S("prio_INTERACTIVE", VBI_CHN_PRIO_INTERACTIVE); S("prio_RECORD", VBI_CHN_PRIO_RECORD);
  S("prio_DEFAULT", DEFAULT_CHN_PRIO);
  S("f_RELEASE", VBI_PROXY_CHN_RELEASE); S("f_TOKEN", VBI_PROXY_CHN_TOKEN); S("f_FLUSH", VBI_PROXY_CHN_FLUSH); S("f_NORM", VBI_PROXY_CHN_NORM);
  S("f_FAIL", VBI_PROXY_CHN_FAIL);
  S("cf_NO_TIMEOUTS", VBI_PROXY_CLIENT_NO_TIMEOUTS); S("cf_NO_STATUS_IND", VBI_PROXY_CLIENT_NO_STATUS_IND);
  S("api_UNKNOWN", VBI_API_UNKNOWN); S("api_V4L1", VBI_API_V4L1); S("api_V4L2", VBI_API_V4L2);
  S("min_strict", VBI_MIN_STRICT); S("max_strict", VBI_MAX_STRICT);
  S("n_services", sizeof(((PROXY_CLNT *)0)->services) / sizeof(((PROXY_CLNT *)0)->services[0]));
  S("sz_clnt", sizeof(PROXY_CLNT)); S("o_clnt_services", OFF(PROXY_CLNT, services)); S("o_clnt_msgbuf", OFF(PROXY_CLNT, msg_buf));
  S("connect_timeout", SRV_CONNECT_TIMEOUT); S("io_timeout", SRV_IO_TIMEOUT); S("max_devices", SRV_MAX_DEVICES);
  S("default_max_clients", DEFAULT_MAX_CLIENTS); S("default_buffer_count", DEFAULT_BUFFER_COUNT);
  S("raw_bits", VBI_SLICED_VBI_625 | VBI_SLICED_VBI_525);
  /* ioctl table: every request of type 'v' / 'V' that vbi_proxy_msg_check_ioctl knows */
  for (api = VBI_API_V4L1; api <= VBI_API_V4L2; ++api)
    for (ty = 0; ty < 2; ++ty) for (dir = 0; dir < 4; ++dir) for (nr = 0; nr < 256; ++nr) for (sz = 0; sz < 16384; ++sz) {
      unsigned req = (dir << 30) | (sz << 16) | ((ty ? 'V' : 'v') << 8) | nr; vbi_bool perm = 0;
      int r = vbi_proxy_msg_check_ioctl((VBI_DRIVER_API_REV) api, (int) req, 0, &perm);
      if (r >= 0) printf("ioctl %d %u %d %d\n", api, req, r, perm ? 1 : 0);
    }
  return 0;
}
'''


def _norm(src):
    src = re.sub(r"/\*.*?\*/", " ", src, flags=re.S)
    src = re.sub(r"//[^\n]*", " ", src)
    return re.sub(r"\s+", " ", src)


def _func_body(src, name):
    m = re.search(r"\n[^\n;{}]*\b" + re.escape(name) + r"\s*\([^;{}]*\)\s*\{", src)
    if not m:
        return None
    i = m.end()
    depth = 1
    while i < len(src) and depth:
        if src[i] == "{":
            depth += 1
        elif src[i] == "}":
            depth -= 1
        i += 1
    return src[m.end():i]


def guards(repo=None):
    """Which of the four guards (repairs proposed in fixes/C19-*.diff) the current source has.  Textual; the
    correspondence check cross-checks every flag (a wrong flag makes model and code disagree on the corpus replays)."""
    repo = repo or REPO
    pd = open(os.path.join(repo, "daemon", "proxyd.c")).read()
    pm = open(os.path.join(repo, "src", "proxy-msg.c")).read()
    g = {}
    # (1) SERVICE_REQ strict clamped before it indexes services[] (either in the message case or in take_service_req)
    tm = _func_body(pd, "vbi_proxyd_take_message") or ""
    m = re.search(r"case MSG_TYPE_SERVICE_REQ:(.*?)case MSG_TYPE_CHN_TOKEN_REQ:", tm, flags=re.S)
    svc_case = _norm(m.group(1)) if m else ""
    tsr = _norm(_func_body(pd, "vbi_proxyd_take_service_req") or "")
    clamp_case = bool(re.search(r"service_req\.strict\s*<\s*VBI_MIN_STRICT", svc_case) and
                      re.search(r"service_req\.strict\s*>\s*VBI_MAX_STRICT", svc_case))
    head = tsr.split("VBI_GET_SERVICE_P(req, new_strict)")[0]
    clamp_fn = bool(re.search(r"new_strict\s*<\s*VBI_MIN_STRICT", head) and re.search(r"new_strict\s*>\s*VBI_MAX_STRICT", head))
    g["svcStrictClamp"] = clamp_case or clamp_fn
    # connect path clamp (present in the unchanged tree)
    m = re.search(r"case MSG_TYPE_CONNECT_REQ:(.*?)case MSG_TYPE_DAEMON_PID_REQ:", tm, flags=re.S)
    con_case = _norm(m.group(1)) if m else ""
    g["conStrictClamp"] = bool(re.search(r"connect_req\.strict\s*<\s*VBI_MIN_STRICT", con_case) and
                               re.search(r"connect_req\.strict\s*>\s*VBI_MAX_STRICT", con_case)) or clamp_fn
    # (2) handle_read: the body is not read when the length in the header was found illegal
    hr = _norm(_func_body(pm, "vbi_proxy_msg_handle_read") or "")
    m = re.search(r"if \(([^{}]*?readOff >= sizeof ?\(VBIPROXY_MSG_HEADER\)\)?)\s*\)\s*\{[^{}]*in read phase two|"
                  r"if \(([^{}]*?)\)\s*\{\s*assert ?\(pIO->readLen <= \(size_t\) ?max_read_len\)", hr)
    cond2 = None
    m2 = re.search(r"if \(((?:[^(){}]|\([^(){}]*(?:\([^(){}]*\)[^(){}]*)*\))*)\)\s*\{\s*assert ?\(pIO->readLen <= \(size_t\) ?max_read_len\)", hr)
    if m2:
        cond2 = m2.group(1)
    g["readLenGuard"] = bool(cond2 and re.search(r"\bresult\b", cond2))
    # (3) CHN_NOTIFY_REQ with the TOKEN flag only honoured when the client has a token state
    m = re.search(r"case MSG_TYPE_CHN_NOTIFY_REQ:(.*?)case MSG_TYPE_CHN_SUSPEND_REQ:", tm, flags=re.S)
    ntf = _norm(m.group(1)) if m else ""
    tok_guard = False
    k = ntf.find("& VBI_PROXY_CHN_TOKEN")
    k2 = ntf.find("REQ_TOKEN_RETURNED", k)
    if k >= 0 and k2 > k:
        tok_guard = bool(re.search(r"token_state\s*!=\s*REQ_TOKEN_NONE", ntf[k:k2]))
    g["tokenReturnGuard"] = tok_guard
    # (2b) the `readOff == 0 || readOff == readLen` assertions of read_idle / is_idle (false during every partial read)
    ri = _norm(_func_body(pm, "vbi_proxy_msg_read_idle") or "assert")
    ii = _norm(_func_body(pm, "vbi_proxy_msg_is_idle") or "assert")
    g["idleAssertsRemoved"] = ("assert" not in ri) and ("assert" not in ii)
    # (5) token_grant: a client in REQ_TOKEN_RELEASE (reclaim sent, not confirmed) is not re-assigned / taken away silently
    tg = _norm(_func_body(pd, "vbi_proxyd_token_grant") or "")
    m = re.search(r"case REQ_TOKEN_RELEASE:(.*?)break;", tg)
    g["releaseWaitsCnf"] = bool(m and "REQ_TOKEN_GRANT" not in m.group(1))
    # (4) channel_update: vbi_capture_flush only with an open device
    cu = _norm(_func_body(pd, "vbi_proxyd_channel_update") or "")
    m = re.search(r"if \(([^{};]*forced_switch[^{};]*)\)\s*\{?\s*vbi_capture_flush", cu)
    g["flushNullGuard"] = bool(m and re.search(r"p_capture\s*!=\s*NULL", m.group(1)))
    return g


def _sources():
    return [os.path.join(REPO, p) for p in ("daemon/proxyd.c", "src/proxy-msg.c", "src/proxy-msg.h", "src/decoder.h",
                                            "src/sliced.h", "config.h", "src/videodev2k.h", "src/videodev.h")]


def probe():
    """-> dict of layout constants + 'ioctls': list of (api, request, size, perm)"""
    h = hashlib.sha256(PROBE.encode())
    for p in _sources():
        try:
            h.update(open(p, "rb").read())
        except OSError:
            h.update(b"-")
    key = h.hexdigest()[:20]
    os.makedirs(CACHE, exist_ok=True)
    cp = os.path.join(CACHE, "proxy_layout_%s.json" % key)
    if os.path.exists(cp):
        try:
            return json.load(open(cp))
        except ValueError:
            pass
    with tempfile.TemporaryDirectory() as d:
        c = os.path.join(d, "p.c")
        open(c, "w").write(PROBE)
        exe = os.path.join(d, "p")
        r = subprocess.run(["gcc", "-std=gnu99", "-O1", "-D_GNU_SOURCE", "-DHAVE_CONFIG_H", "-D_REENTRANT", "-w", "-I" + REPO,
                            "-I" + os.path.join(REPO, "src"), "-I" + os.path.join(REPO, "daemon"), c, "-o", exe,
                            "-ffunction-sections", "-fdata-sections", "-Wl,--gc-sections", "-lpthread"],
                           stdout=subprocess.PIPE, stderr=subprocess.STDOUT)
        if r.returncode != 0:
            raise SystemExit("proxy_util: probe does not compile:\n" + r.stdout.decode()[-3000:])
        out = subprocess.run([exe], stdout=subprocess.PIPE, timeout=300).stdout.decode()
    L = {"ioctls": []}
    for line in out.strip().split("\n"):
        w = line.split()
        if w[0] == "ioctl":
            L["ioctls"].append([int(x) for x in w[1:]])
        else:
            L[w[0]] = int(w[1])
    tmp = cp + ".tmp%d" % os.getpid()
    json.dump(L, open(tmp, "w"))
    os.replace(tmp, cp)
    return L


# ---------------------------------------------------------------------------------------------------------
# sender spec: encoders of the client -> daemon messages (host byte order body, network byte order header)
# ---------------------------------------------------------------------------------------------------------
MAGIC = b"LIBZVBI VBIPROXY"


class Enc:
    def __init__(self, L=None):
        self.L = L or probe()

    def hdr(self, mtype, length):
        return struct.pack(">II", length & 0xFFFFFFFF, mtype & 0xFFFFFFFF)

    def msg(self, mtype, body, length=None):
        return self.hdr(mtype, self.L["hdr"] + len(body) if length is None else length) + body

    def magics(self, magic=MAGIC, compat=None, version=None, endian=None):
        L = self.L
        b = bytearray(L["o_magic_endian"] + 4)
        b[0:len(magic)] = magic[:L["magic_len"]]
        struct.pack_into("<I", b, L["o_magic_compat"], L["compat_version"] if compat is None else compat)
        struct.pack_into("<I", b, L["o_magic_version"], L["version"] if version is None else version)
        struct.pack_into("<I", b, L["o_magic_endian"], L["endian_magic"] if endian is None else endian)
        return bytes(b)

    def connect(self, services=0, strict=0, scanning=0, buffer_count=5, flags=0, magic=MAGIC, compat=None, endian=None, name=b"verif"):
        L = self.L
        b = bytearray(L["sz_connect_req"])
        mg = self.magics(magic, compat, None, endian)
        b[0:len(mg)] = mg
        b[L["o_con_name"]:L["o_con_name"] + len(name)] = name
        struct.pack_into("<i", b, L["o_con_pid"], 4242)
        struct.pack_into("<I", b, L["o_con_flags"], flags & 0xFFFFFFFF)
        struct.pack_into("<I", b, L["o_con_scanning"], scanning & 0xFFFFFFFF)
        b[L["o_con_bufcnt"]] = buffer_count & 0xFF
        struct.pack_into("<I", b, L["o_con_services"], services & 0xFFFFFFFF)
        b[L["o_con_strict"]] = strict & 0xFF
        return self.msg(L["t_CONNECT_REQ"], bytes(b))

    def service(self, services, strict=0, reset=0, commit=0):
        L = self.L
        b = bytearray(L["sz_service_req"])
        b[L["o_svc_reset"]] = reset & 0xFF
        b[L["o_svc_commit"]] = commit & 0xFF
        b[L["o_svc_strict"]] = strict & 0xFF
        struct.pack_into("<I", b, L["o_svc_services"], services & 0xFFFFFFFF)
        return self.msg(L["t_SERVICE_REQ"], bytes(b))

    def token(self, prio, valid=1, sub_prio=0, min_dur=0, exp_dur=0):
        L = self.L
        b = bytearray(L["sz_token_req"])
        struct.pack_into("<I", b, L["o_tok_prio"], prio & 0xFFFFFFFF)
        b[L["o_tok_valid"]] = valid & 0xFF
        b[L["o_tok_subprio"]] = sub_prio & 0xFF
        struct.pack_into("<q", b, L["o_tok_mindur"], min_dur)
        struct.pack_into("<q", b, L["o_tok_expdur"], exp_dur)
        return self.msg(L["t_CHN_TOKEN_REQ"], bytes(b))

    def notify(self, flags, scanning=0):
        L = self.L
        b = bytearray(L["sz_notify_req"])
        struct.pack_into("<I", b, L["o_ntf_flags"], flags & 0xFFFFFFFF)
        struct.pack_into("<I", b, L["o_ntf_scanning"], scanning & 0xFFFFFFFF)
        return self.msg(L["t_CHN_NOTIFY_REQ"], bytes(b))

    def suspend(self):
        L = self.L
        return self.msg(L["t_CHN_SUSPEND_REQ"], bytes(L["sz_notify_req"]))   # check_msg compares with sizeof(chn_notify_req)

    def ioctl(self, request, arg_size, fill=0):
        """arg_size >= 1 (the protocol transmits arg_size-1 bytes of data, see VBIPROXY_CHN_IOCTL_REQ_SIZE)"""
        L = self.L
        n = L["ioctl_req_size0"] + arg_size
        b = bytearray(max(n, L["o_ioc_argsize"] + 4))
        struct.pack_into("<I", b, L["o_ioc_request"], request & 0xFFFFFFFF)
        struct.pack_into("<I", b, L["o_ioc_argsize"], arg_size & 0xFFFFFFFF)
        for i in range(L["o_ioc_argdata"], len(b)):
            b[i] = fill & 0xFF
        return self.msg(L["t_CHN_IOCTL_REQ"], bytes(b[:n]))

    def reclaim_cnf(self):
        return self.msg(self.L["t_CHN_RECLAIM_CNF"], b"")

    def close(self):
        return self.msg(self.L["t_CLOSE_REQ"], b"")

    def pid_req(self, magic=MAGIC, endian=None):
        return self.msg(self.L["t_DAEMON_PID_REQ"], self.magics(magic, None, None, endian))


def hexs(b):
    return b.hex() if b else "-"


# ---------------------------------------------------------------------------------------------------------
# decoding of harness / driver output
# ---------------------------------------------------------------------------------------------------------
def parse_state(line):
    """'ok n=2 | c0:d0:F:GD:p1:... | d0:... | al..' -> dict(n, clients=[dict], devs=[str], tail) or None"""
    if not line.startswith("ok n="):
        return None
    try:
        parts = line.split(" | ") if " | " in line else line.split("|")
        parts = [p.strip() for p in line.split("|")]
        n = int(parts[0].split("=")[1])
        cl = []
        for w in parts[1].split():
            f = w.split(":")
            cl.append({"h": int(f[0][1:]), "dev": int(f[1][1:]), "st": f[2], "tok": f[3], "prio": int(f[4][1:]),
                       "ind": int(f[5][1:]), "io": f[6], "as": int(f[7][2:], 16), "sv": f[8], "raw": w,
                       "pf": f[12], "sc": f[13], "q": int(f[14][1:])})
        return {"n": n, "clients": cl, "devs": parts[2].split(), "tail": parts[3] if len(parts) > 3 else ""}
    except (ValueError, IndexError):
        return None


def parse_recv(line):
    """'ok A:.. B:..' -> list of message strings ('-' -> [])"""
    if not line.startswith("ok"):
        return None
    w = line.split()[1:]
    return [x for x in w if x != "-"]


# =========================================================================================================
# Runtime stage (support, not proof): the REAL daemon as a process (harness/proxy_mp.c: same one-TU trick, real select /
# time / alarm, fake capture fed through a control pipe), two witness processes built from the real client library
# (harness/proxy_mpclient.c includes src/proxy-client.c) and a raw-socket fault client replaying mutated sessions.
# Lock-step: one frame is injected only after the daemon digested the fault burst, every witness must print it bit-exact.
# Entry points: mp_build(verif), mp_run_schedules(verif, pu, rng, n_schedules, budget_s).
# =========================================================================================================
#!/usr/bin/env python3
"""C19 multi-process runtime stage: the real proxy daemon as a process, two witness clients built on the real client
library, and one hostile raw-socket client (non-proof support; see harness/proxy_mp.c, harness/proxy_mpclient.c).

    import proxy_mp
    exes, err = proxy_mp.build(verif)                         # {"daemon": path, "client": path} or (None, text)
    fails = proxy_mp.run_schedules(verif, proxy_util, random.Random(seed), n_schedules=5, budget_s=25)
    # -> [] or [(what, [detail lines])]

One schedule: fresh tmp dir / device name -> daemon process -> 2 witnesses (`ready`) -> rounds of
  [fault burst]  1..3 sessions of the raw client: valid messages of proxy_util.Enc with mutations (see gen_session)
  [quiet phase]  every fault connection is half-closed and the daemon must drop it (observed: EOF / POLLHUP), except a
                 `hold` connection (connected with a service, then shutdown(SHUT_RD)); then a liveness probe: a fresh
                 connection with a valid CONNECT_REQ(services=0) must be answered by CONNECT_CNF
  [frame]        ONE frame descriptor goes into the control pipe; EVERY witness must print the matching
                 `frame <seq> <n> 1 <ids>` line (lock-step: no frame is in flight during a burst, so neither a queue
                 overflow nor a channel flush can legitimately take a frame away)
At the end SIGTERM; the daemon must exit 0 with a clean sanitizer log.  Every wait has a timeout, every child is killed in
a finally block.  Daemon death is reported where it is detected, with the bytes of the burst that preceded it."""
import os, random, select, shutil, signal, socket, struct, subprocess, sys, tempfile, time

HERE = os.path.dirname(os.path.abspath(__file__))
_SIB = os.path.join(os.path.dirname(HERE), "harness")
SRCDIR = _SIB if os.path.exists(os.path.join(_SIB, "proxy_mp.c")) else HERE
SOURCES = ("proxy_mp.c", "proxy_mpclient.c")

T_READY, T_PROBE, T_FRAME, T_CLOSED, T_EXIT = 20.0, 15.0, 15.0, 10.0, 15.0     # generous: a loaded machine must not fail
BAD_LOG = ("ERROR: AddressSanitizer", "runtime error", "Assertion", "LeakSanitizer", "AddressSanitizer:", "double free")
TTX_B = 0x3                                                                      # VBI_SLICED_TELETEXT_B (witness service)


# ------------------------------------------------------------------------------------------------------------
# build
# ------------------------------------------------------------------------------------------------------------
def build(verif, srcdir=None):
    """both executables with the framework's sanitizer flags against the sanitizer libzvbi -> ({daemon, client}, "") or
    (None, error text); cached under verif.CACHE by a hash of the repo sources and the two harness sources"""
    srcdir = srcdir or SRCDIR
    srcs = [os.path.join(srcdir, f) for f in SOURCES]
    flags = verif.SAN_FLAGS
    key = verif._hash_files(verif.repo_sources() + srcs, " ".join(flags) + "proxy_mp-v1")
    d = os.path.join(verif.CACHE, "build", "h-proxy_mp-" + key)
    exes = {"daemon": os.path.join(d, "proxy_mp"), "client": os.path.join(d, "proxy_mpclient")}
    if all(os.path.exists(p) for p in exes.values()):
        os.utime(d)
        return exes, ""
    lib, err = verif.build_lib(flags, "san")
    if lib is None:
        return None, "library build failed:\n" + err
    tmp = d + ".tmp%d" % os.getpid()
    shutil.rmtree(tmp, ignore_errors=True)
    os.makedirs(tmp)
    R = verif.REPO
    inc = ["-I" + R, "-I" + os.path.join(R, "src"), "-I" + os.path.join(R, "daemon"), "-I" + srcdir]
    procs = []
    for f in SOURCES:                        # the two compile in parallel
        cmd = ["gcc"] + verif.BASE_CFLAGS + flags + inc + [os.path.join(srcdir, f), "-o", os.path.join(tmp, f[:-2]), lib,
                                                            "-lm", "-lpthread"]
        procs.append((f, subprocess.Popen(cmd, stdout=subprocess.PIPE, stderr=subprocess.STDOUT)))
    errs = []
    for f, p in procs:
        out, _ = p.communicate()
        if p.returncode != 0:
            errs.append(f + ":\n" + out.decode("utf-8", "replace")[-4000:])
    if errs:
        shutil.rmtree(tmp, ignore_errors=True)
        return None, "\n".join(errs)
    try:
        os.rename(tmp, d)
    except OSError:                          # a parallel build won
        shutil.rmtree(tmp, ignore_errors=True)
    return exes, ""


# ------------------------------------------------------------------------------------------------------------
# small helpers
# ------------------------------------------------------------------------------------------------------------
class Lines:
    """line reader with timeouts on a child's stdout pipe"""
    def __init__(self, f):
        self.fd = f.fileno()
        os.set_blocking(self.fd, False)
        self.buf = b""
        self.eof = False

    def get(self, timeout):
        """next line (str) or None after `timeout` seconds / at end-of-file"""
        end = time.monotonic() + timeout
        while True:
            i = self.buf.find(b"\n")
            if i >= 0:
                line, self.buf = self.buf[:i], self.buf[i + 1:]
                return line.decode("utf-8", "replace")
            left = end - time.monotonic()
            if self.eof or left <= 0:
                return None
            r, _, _ = select.select([self.fd], [], [], left)
            if r:
                try:
                    d = os.read(self.fd, 65536)
                except BlockingIOError:
                    continue
                if not d:
                    self.eof = True
                self.buf += d


def _connect(path, timeout=T_PROBE):
    s = socket.socket(socket.AF_UNIX, socket.SOCK_STREAM)
    s.settimeout(timeout)
    s.connect(path)
    return s


def _recv_msg(s, timeout):
    """one complete daemon message (type, bytes) or None"""
    end = time.monotonic() + timeout
    buf = b""
    need = 8
    try:
        while len(buf) < need:
            left = end - time.monotonic()
            if left <= 0:
                return None
            s.settimeout(left)
            d = s.recv(need - len(buf))
            if not d:
                return None
            buf += d
            if len(buf) == 8 and need == 8:
                need = struct.unpack(">I", buf[:4])[0]
                if need < 8 or need > (1 << 20):
                    return None
        return struct.unpack(">I", buf[4:8])[0], buf
    except OSError:
        return None


def _wait_closed(s, shut_rd, timeout=T_CLOSED):
    """True when the daemon has closed its end (EOF, reset or POLLHUP); incoming data is discarded"""
    p = select.poll()
    p.register(s.fileno(), 0 if shut_rd else select.POLLIN)   # after SHUT_RD POLLIN is permanently set: watch HUP only
    end = time.monotonic() + timeout
    s.setblocking(False)
    while True:
        left = end - time.monotonic()
        if left <= 0:
            return False
        for _, ev in p.poll(left * 1000):
            if ev & (select.POLLHUP | select.POLLERR | select.POLLNVAL):
                return True
            if ev & select.POLLIN:
                try:
                    if not s.recv(65536):
                        return True
                except BlockingIOError:
                    pass
                except OSError:
                    return True


# ------------------------------------------------------------------------------------------------------------
# fault client: sessions are lists of ops  ("send", bytes) ("sleep", s) ("shut_rd",) ("cnf",) ("hold",) ("close",)
# ------------------------------------------------------------------------------------------------------------
def _rand_services(rng):
    return rng.choice([0, 1, 2, 3, 3, 0x400, 0x8, 0x3 | 0x400, 0x20000000, 0x40000000, 0xFFFFFFFF, rng.getrandbits(32),
                       rng.getrandbits(32) & 0x1FFFFFFF])


def _valid_msg(rng, E, L, kind=None):
    """one well-formed client message with random (also out-of-range) field values"""
    kind = kind or rng.choice(["service", "service", "token", "token", "notify", "notify", "ioctl", "reclaim", "suspend",
                               "pid", "connect"])
    if kind == "connect":
        return E.connect(services=_rand_services(rng), strict=rng.choice([-1, 0, 1, 2, rng.randint(-128, 127)]),
                         scanning=rng.choice([0, 0, 625, 525, rng.getrandbits(32)]), buffer_count=rng.choice([0, 1, 5, 255]),
                         flags=rng.choice([0, 0, 1, 2, 3, rng.getrandbits(32)]))
    if kind == "service":
        return E.service(_rand_services(rng), strict=rng.choice([-1, 0, 1, 2, rng.randint(-128, 127)]),
                         reset=rng.choice([0, 1, 255]), commit=rng.choice([0, 1]))
    if kind == "token":
        return E.token(rng.choice([L["prio_BACKGROUND"], L["prio_INTERACTIVE"], L["prio_RECORD"], 0, 7, rng.getrandbits(32)]),
                       valid=rng.choice([0, 1, 1, 255]), sub_prio=rng.getrandbits(8),
                       min_dur=rng.choice([0, 1, 2, -1, 1 << 40, -(1 << 62)]), exp_dur=rng.choice([0, 1, -1, 1 << 50]))
    if kind == "notify":
        return E.notify(rng.choice([rng.getrandbits(5), rng.getrandbits(32), L["f_TOKEN"], L["f_FLUSH"], L["f_RELEASE"],
                                    L["f_NORM"], L["f_TOKEN"] | L["f_FLUSH"]]), scanning=rng.choice([0, 525, 625, rng.getrandbits(32)]))
    if kind == "ioctl":
        if L["ioctls"] and rng.random() < 0.6:
            _, req, size, _ = rng.choice(L["ioctls"])
            return E.ioctl(req, max(1, size if rng.random() < 0.7 else rng.randint(1, 64)), fill=rng.getrandbits(8))
        return E.ioctl(rng.getrandbits(32), rng.randint(1, 200), fill=rng.getrandbits(8))
    if kind == "reclaim":
        return E.reclaim_cnf()
    if kind == "suspend":
        return E.suspend()
    if kind == "pid":
        return E.pid_req()
    return E.close()


def _bad_len(rng, msg, L):
    n = len(msg)
    v = rng.choice([0, 1, 7, 8, L["msg"] + 1, L["msg"], 1 << 31, (1 << 32) - 1, n - 1, n + 1, rng.getrandbits(32), rng.randint(0, 70000)])
    return struct.pack(">I", v & 0xFFFFFFFF) + msg[4:]


def _bad_type(rng, msg, L):
    v = rng.choice([rng.randint(0, 40), rng.getrandbits(32), (1 << 32) - 1, 1 << 31, L["t_SLICED_IND"], L["t_CONNECT_CNF"], L["t_COUNT"]])
    return msg[:4] + struct.pack(">I", v & 0xFFFFFFFF) + msg[8:]


def _split(rng, msg):
    """a message in 2..3 sends with small sleeps"""
    k = rng.choice([2, 3])
    cuts = sorted(rng.randint(1, max(1, len(msg) - 1)) for _ in range(k - 1))
    ops, a = [], 0
    for c in cuts + [len(msg)]:
        if c > a:
            ops += [("send", msg[a:c]), ("sleep", rng.choice([0.0005, 0.002, 0.005]))]
            a = c
    return ops


def gen_session(rng, E, L):
    """-> list of ops of one fault connection"""
    shape = rng.choice(["hold", "hold", "trunc", "trunc", "badlen", "badlen", "badtype", "garbage", "split", "state", "strict", "strict",
                        "closeany", "shutrd_write", "oversize", "magic", "valid"])
    con = E.connect(services=rng.choice([0, 3, 1, 0x400, 0x403]), strict=rng.choice([-1, 0, 1, 2]))
    follow = [_valid_msg(rng, E, L) for _ in range(rng.randint(0, 4))]
    if shape == "hold":          # C19-d shape: connected WITH a service, receive side shut down, alive across the next frame
        return [("send", E.connect(services=rng.choice([3, 1, 2, 0x403, 0x400]), strict=rng.choice([0, 1]))), ("cnf",),
                ("shut_rd",), ("hold",)]
    if shape == "trunc":         # a prefix of a session, then silence, then disconnect
        data = b"".join([con] + follow)
        cut = rng.randint(0, len(data) - 1)
        return [("send", data[:cut]), ("sleep", rng.choice([0, 0.001, 0.01])), ("close",)]
    if shape == "badlen":
        msgs = [con] + follow
        k = rng.randrange(len(msgs))
        msgs[k] = _bad_len(rng, msgs[k], L)
        return [("send", m) for m in msgs] + [("close",)]
    if shape == "badtype":
        msgs = [con] + follow + [_valid_msg(rng, E, L)]
        k = rng.randrange(len(msgs))
        msgs[k] = _bad_type(rng, msgs[k], L)
        return [("send", m) for m in msgs] + [("close",)]
    if shape == "garbage":
        pre = [("send", con)] if rng.random() < 0.5 else []
        return pre + [("send", bytes(rng.getrandbits(8) for _ in range(rng.choice([1, 7, 8, 9, 64, 700, 5000]))))] + [("close",)]
    if shape == "split":
        ops = []
        for m in [con] + follow:
            ops += _split(rng, m) if rng.random() < 0.7 else [("send", m)]
        return ops + [("close",)]
    if shape == "state":         # messages which are illegal before CONNECT_REQ / a second CONNECT_REQ afterwards
        if rng.random() < 0.5:
            return [("send", _valid_msg(rng, E, L, rng.choice(["service", "token", "notify", "ioctl", "reclaim", "suspend"]))),
                    ("send", con), ("close",)]
        return [("send", con), ("send", _valid_msg(rng, E, L, "connect")), ("send", E.pid_req()), ("close",)]
    if shape == "strict":        # the whole int8 range, on both paths
        st = rng.randint(-128, 127)
        return [("send", E.connect(services=rng.choice([0, 3, 0x403]), strict=rng.choice([0, st]))),
                ("send", E.service(rng.choice([1, 3, 0x400, 0x403]), strict=st, reset=rng.choice([0, 1]))),
                ("send", E.service(rng.choice([1, 3, 0x400]), strict=rng.randint(-128, 127))), ("close",)]
    if shape == "closeany":      # disconnect right after any message, without reading a reply
        msgs = [con] + follow
        return [("send", m) for m in msgs[:rng.randint(0, len(msgs))]] + [("close",)]
    if shape == "shutrd_write":  # receive side shut down, then keep writing: the daemon's replies fail
        return [("send", con), ("shut_rd",)] + [("send", m) for m in follow + [_valid_msg(rng, E, L, "service")]] + [("close",)]
    if shape == "oversize":      # length beyond sizeof(VBIPROXY_MSG) with the bytes really sent
        n = rng.choice([L["msg"] + 1, L["msg"] + 9, 20000, 66000])
        body = bytes(rng.getrandbits(8) for _ in range(40)) + bytes([rng.getrandbits(8)]) * (n - 48)
        t = rng.choice([L["t_CHN_IOCTL_REQ"], L["t_CONNECT_REQ"], L["t_SERVICE_REQ"]])
        return ([("send", con)] if rng.random() < 0.6 else []) + [("send", struct.pack(">II", n, t) + body), ("close",)]
    if shape == "magic":         # wrong magic / endian mismatch / incompatible version
        m = rng.choice([E.connect(magic=b"LIBZVBI VBIPROXX"), E.connect(endian=L["endian_mismatch"]), E.connect(compat=0x7FFFFFFF),
                        E.connect(endian=0x12345678), E.pid_req(endian=L["endian_mismatch"]), E.pid_req(magic=b"x" * 16)])
        return [("send", m)] + [("send", x) for x in follow] + [("close",)]
    return [("send", con)] + [("send", m) for m in follow] + [("close",)]     # "valid": random field values only


def _hex(b):
    """complete and replayable: hex, a long constant tail as `+<count>*<byte>`"""
    k = len(b)
    while k > 0 and b[k - 1] == b[-1]:
        k -= 1
    return b.hex() if len(b) - k < 64 else "%s+%d*%02x" % (b[:k].hex(), len(b) - k, b[-1])


def play(path, ops, tag, log):
    """run one fault session -> (socket, shut_rd, hold) ; the socket is still open (the caller finishes it)"""
    s = _connect(path)
    s.settimeout(5.0)
    shut_rd = hold = dead = False
    log.append("%s connect" % tag)
    for op in ops:
        if op[0] == "send" and not dead:
            log.append("%s send %s" % (tag, _hex(op[1])))
            try:
                s.sendall(op[1])
            except OSError as e:           # the daemon has already dropped us
                log.append("%s send failed: %s" % (tag, e.__class__.__name__))
                dead = True
        elif op[0] == "sleep":
            time.sleep(op[1])
        elif op[0] == "shut_rd" and not dead:
            log.append("%s shutdown(SHUT_RD)" % tag)
            try:
                s.shutdown(socket.SHUT_RD)
                shut_rd = True
            except OSError:
                dead = True
        elif op[0] == "cnf" and not dead:
            m = _recv_msg(s, T_PROBE)
            log.append("%s reply type %s" % (tag, m[0] if m else None))
            if m is None:
                dead = True
        elif op[0] == "hold":
            hold = not dead
    return s, shut_rd, hold


def finish(s, shut_rd, tag, log):
    """half-close; the daemon must drop the connection -> True"""
    try:
        s.shutdown(socket.SHUT_WR)
    except OSError:
        pass
    ok = _wait_closed(s, shut_rd)
    log.append("%s closed by daemon: %s" % (tag, ok))
    s.close()
    return ok


# ------------------------------------------------------------------------------------------------------------
# one schedule
# ------------------------------------------------------------------------------------------------------------
def _tail(path, n=4000):
    try:
        return open(path, "rb").read()[-n:].decode("utf-8", "replace")
    except OSError:
        return ""


def _san_lines(text, limit=25):
    keep = [l for l in text.split("\n") if l.strip()]
    return keep[:limit]


def run_one(verif, pu, rng, exes, sched_id, deadline, rounds=6):
    """-> list of (what, detail lines)"""
    L = pu.probe()
    E = pu.Enc(L)
    fails = []
    tmp = tempfile.mkdtemp(prefix="zvbi_c19mp_", dir="/tmp")
    dev = os.path.join(tmp, "vbi0")
    sock = "/tmp/vbiproxy" + dev.replace("/", "-")          # vbi_proxy_msg_get_socket_name (checked against `listening`)
    env = dict(os.environ)
    env.update(verif.SAN_ENV)
    procs, held, ctl_w = [], [], -1
    dlog_path = os.path.join(tmp, "daemon.err")
    burst, prev = [], []                                     # log of the current and of the previous round
    hdr = ["schedule %s device %s" % (sched_id, dev)]

    def daemon_dead(where, grace=3.0):
        """daemon gone -> failure recorded, True.  Called when something already went wrong (grace: a daemon that is
        writing its sanitizer report has not exited yet) and, with grace 0, as a routine check"""
        try:
            rc = daemon.wait(grace) if grace else daemon.poll()
        except subprocess.TimeoutExpired:
            rc = None
        if rc is None:
            return False
        fails.append(("daemon died (exit status %s) %s" % (rc, where), hdr + ["-- preceding rounds (fault bursts, frames):"] + prev + burst +
                      ["-- daemon stderr:"] + _san_lines(_tail(dlog_path))))
        return True

    def probe(where):
        """liveness: a fresh connection with a valid CONNECT_REQ(services=0) must get CONNECT_CNF -> True"""
        try:
            ps = _connect(sock)
            ps.sendall(E.connect(services=0))
            m = _recv_msg(ps, T_PROBE)
            ps.close()
        except OSError as e:
            m = ("error: %s" % e, b"")
        if m and m[0] == L["t_CONNECT_CNF"]:
            return True
        if not daemon_dead("(liveness probe %s)" % where):
            fails.append(("daemon stopped serving: a valid CONNECT_REQ %s got %r" % (where, m and m[0]), hdr + prev + burst))
        return False

    try:
        r, ctl_w = os.pipe()
        dlog = open(dlog_path, "wb")
        daemon = subprocess.Popen([exes["daemon"], dev, str(r)], pass_fds=[r], stdin=subprocess.DEVNULL, stdout=subprocess.PIPE,
                                  stderr=dlog, env=env)
        procs.append(daemon)
        os.close(r)
        dl = Lines(daemon.stdout)
        line = dl.get(T_READY)
        if line != "listening " + sock:
            if not daemon_dead("at start"):
                fails.append(("daemon did not start listening", hdr + [repr(line)] + _san_lines(_tail(dlog_path))))
            return fails
        wit = []
        for i in range(2):
            wlog = open(os.path.join(tmp, "w%d.err" % i), "wb")
            p = subprocess.Popen([exes["client"], dev, "0"] + (["token"] if i == 1 else []), stdin=subprocess.PIPE,
                                 stdout=subprocess.PIPE, stderr=wlog, env=env)
            procs.append(p)
            wit.append((p, Lines(p.stdout)))
        for i, (p, wl) in enumerate(wit):
            while True:
                line = wl.get(T_READY)
                if line is None or line == "ready" or line.startswith("error"):
                    break
            if line != "ready":
                if not daemon_dead("while the witnesses connected"):
                    fails.append(("witness %d did not get ready" % i, hdr + [repr(line)] + _san_lines(_tail(os.path.join(tmp, "w%d.err" % i)))))
                return fails

        seq = 0
        for rnd in range(rounds):
            if time.monotonic() > deadline:
                break
            # ---- fault burst
            prev, burst = burst, ["round %d" % rnd]
            open_conns = []
            for k in range(rng.randint(1, 3)):
                ops = gen_session(rng, E, L)
                tag = "c%d" % k
                try:
                    s, shut_rd, hold = play(sock, ops, tag, burst)
                except OSError as e:
                    burst.append("%s connect failed: %s" % (tag, e))
                    if not daemon_dead("during a fault burst"):
                        fails.append(("daemon refuses connections", hdr + prev + burst))
                    return fails
                (held if hold and not held else open_conns).append((s, shut_rd, tag))
            # ---- quiet phase: every fault connection (but a held one) must be dropped by the daemon
            for s, shut_rd, tag in open_conns:
                if not finish(s, shut_rd, tag, burst):
                    if daemon_dead("after a fault burst"):
                        return fails
                    fails.append(("daemon did not release a connection whose client went away", hdr + prev + burst))
                    return fails
            if daemon_dead("after a fault burst", 0) or not probe("after the fault burst"):
                return fails
            # ---- a well-behaved token user, while no frame is in flight
            if rng.random() < 0.4:
                p, wl = wit[1]
                try:
                    p.stdin.write(b"token\n")
                    p.stdin.flush()
                except OSError:
                    pass
                line = wl.get(T_FRAME)
                w = (line or "").split()
                if len(w) != 3 or w[0] != "token" or w[1] not in ("0", "1") or w[2] != "0":
                    if not daemon_dead("during a token request of a witness"):
                        fails.append(("witness 1: channel token request / release failed: %r" % line, hdr + prev + burst))
                    return fails
            # ---- one frame, every witness must receive it complete and bit-exact
            seq += 1
            ids = [rng.choice([1, 2, 3, 3, 3, 0x400, 0x8, 0x403, 0x40000000, 1 << rng.randrange(31)]) for _ in range(rng.choice([0, 1, 5, 17, 31, rng.randint(0, 31)]))]
            burst.append("frame %d ids %s%s" % (seq, ",".join("%x" % x for x in ids) or "-", " (fault connection %s still open)" % held[0][2] if held else ""))
            os.write(ctl_w, struct.pack("<Ii31I", seq, len(ids), *(ids + [0] * (31 - len(ids)))))
            exp_l = [(x, i) for i, x in enumerate(ids) if x & TTX_B]
            exp = "frame %d %d 1 %s" % (seq, len(exp_l), ",".join("%x@%d" % e for e in exp_l) or "-")
            for i, (p, wl) in enumerate(wit):
                line = wl.get(T_FRAME)
                if line != exp:
                    if not daemon_dead("after frame %d was injected" % seq):
                        fails.append(("witness %d did not receive frame %d complete and correct" % (i, seq),
                                      hdr + ["expected: " + exp, "got:      " + repr(line), "-- preceding rounds:"] + prev + burst))
                    return fails
            for s, shut_rd, tag in held:                     # the frame could not be sent to it: the daemon drops it
                if not finish(s, shut_rd, tag, burst):
                    if not daemon_dead("after frame %d" % seq):
                        fails.append(("daemon did not release a connection whose client went away", hdr + prev + burst))
                    return fails
            held = []
            if not probe("after frame %d" % seq):            # also attributes a crash to the frame / burst that caused it
                return fails

        # ---- orderly end: witnesses quit, daemon SIGTERM -> exit 0, clean log
        for i, (p, wl) in enumerate(wit):
            if p.poll() is not None:
                fails.append(("witness %d exited on its own (status %s)" % (i, p.returncode), hdr + prev + burst + _san_lines(_tail(os.path.join(tmp, "w%d.err" % i)))))
            try:
                p.stdin.write(b"quit\n")
                p.stdin.flush()
                p.stdin.close()
            except OSError:
                pass
        for p, wl in wit:
            try:
                p.wait(T_EXIT)
            except subprocess.TimeoutExpired:
                p.kill()
        end = time.monotonic() + T_EXIT
        while daemon.poll() is None and time.monotonic() < end:
            daemon.send_signal(signal.SIGTERM)               # repeated: a signal just before select() blocks is lost
            try:
                daemon.wait(0.1)
            except subprocess.TimeoutExpired:
                pass
        if daemon.poll() is None:
            fails.append(("daemon did not terminate on SIGTERM", hdr + prev + burst))
        else:
            log = _tail(dlog_path, 20000)
            if daemon.returncode != 0 or any(b in log for b in BAD_LOG):
                fails.append(("daemon exit status %s / sanitizer log at shutdown" % daemon.returncode,
                              hdr + ["-- last rounds:"] + prev + burst + ["-- daemon stderr:"] + _san_lines(log)))
        return fails
    finally:
        for s, _, _ in held:
            try:
                s.close()
            except OSError:
                pass
        for p in procs:
            if p.poll() is None:
                p.kill()
        for p in procs:
            try:
                p.wait(5)
            except (subprocess.TimeoutExpired, OSError):
                pass
            for f in (p.stdin, p.stdout):
                try:
                    if f:
                        f.close()
                except OSError:
                    pass
        if ctl_w >= 0:
            os.close(ctl_w)
        try:
            os.unlink(sock)                                  # left behind only when the daemon died
        except OSError:
            pass
        shutil.rmtree(tmp, ignore_errors=True)


def run_schedules(verif, pu, rng, n_schedules, budget_s, exes=None, rounds=6):
    """-> list of (what, detail_lines); [] = pass"""
    t0 = time.monotonic()
    if exes is None:
        exes, err = build(verif)
        if exes is None:
            return [("proxy_mp: build failed", err.split("\n")[-40:])]
    fails = []
    for k in range(n_schedules):
        if time.monotonic() - t0 > budget_s:
            break
        try:
            fails += run_one(verif, pu, rng, exes, k, t0 + budget_s, rounds)
        except Exception as e:                               # the stage itself must not take the check down
            import traceback
            fails.append(("proxy_mp: internal error %s" % e.__class__.__name__, traceback.format_exc().split("\n")))
        if fails:
            break
    return fails


mp_build = build
mp_run_schedules = run_schedules
