#!/usr/bin/env python3
"""Helpers of component `proxy` (C19): layout probe of the proxy protocol, message encoder (sender spec),
decoder of harness output lines.  Used by translate/gen_proxy.py and checks/C19.py.

The layout (sizeof of each message body, field offsets, enum values, ioctl table) is never typed by hand: a C probe is
compiled against the current tree ($ZVBI_REPO or /repo) and run; the result is cached by a hash of the sources it reads.
"""
import hashlib, json, os, re, struct, subprocess, tempfile

REPO = os.environ.get("ZVBI_REPO", "/repo")
HERE = os.path.dirname(os.path.abspath(__file__))
CACHE = os.path.join(HERE, "..", ".cache")

PROBE = r'''
#include <stdio.h>
#include <stddef.h>
#define main static zvbid_main
#include "daemon/proxyd.c"
#undef main
#include "src/proxy-msg.c"
#define S(n, e) printf("%s %lld\n", n, (long long)(e))
#define OFF(t, f) (long long) offsetof(t, f)
int main(void)
{
  VBIPROXY_MSG_BODY *b = 0; int api; unsigned ty, nr, dir, sz;
  S("hdr", sizeof(VBIPROXY_MSG_HEADER)); S("msg", sizeof(VBIPROXY_MSG));
  S("sz_connect_req", sizeof b->connect_req); S("sz_connect_cnf", sizeof b->connect_cnf); S("sz_connect_rej", sizeof b->connect_rej);
  S("sz_service_req", sizeof b->service_req); S("sz_service_cnf", sizeof b->service_cnf); S("sz_service_rej", sizeof b->service_rej);
  S("sz_token_req", sizeof b->chn_token_req); S("sz_token_cnf", sizeof b->chn_token_cnf); S("sz_token_ind", sizeof b->chn_token_ind);
  S("sz_notify_req", sizeof b->chn_notify_req); S("sz_notify_cnf", sizeof b->chn_notify_cnf);
  S("sz_suspend_req", sizeof b->chn_suspend_req); S("sz_suspend_rej", sizeof b->chn_suspend_rej);
  S("sz_ioctl_req", sizeof b->chn_ioctl_req); S("sz_ioctl_cnf", sizeof b->chn_ioctl_cnf); S("sz_ioctl_rej", sizeof b->chn_ioctl_rej);
  S("sz_reclaim_req", sizeof b->chn_reclaim_req); S("sz_reclaim_cnf", sizeof b->chn_reclaim_cnf);
  S("sz_change_ind", sizeof b->chn_change_ind); S("sz_pid_req", sizeof b->daemon_pid_req); S("sz_pid_cnf", sizeof b->daemon_pid_cnf);
  S("sz_sliced_hdr", VBIPROXY_SLICED_IND_SIZE(0, 0)); S("sz_sliced_line", sizeof(vbi_sliced));
  S("sz_time_t", sizeof(time_t));
  S("o_magic_compat", OFF(VBIPROXY_MAGICS, protocol_compat_version)); S("o_magic_version", OFF(VBIPROXY_MAGICS, protocol_version));
  S("o_magic_endian", OFF(VBIPROXY_MAGICS, endian_magic)); S("magic_len", VBIPROXY_MAGIC_LEN);
  S("o_con_name", OFF(VBIPROXY_CONNECT_REQ, client_name)); S("o_con_pid", OFF(VBIPROXY_CONNECT_REQ, pid));
  S("o_con_flags", OFF(VBIPROXY_CONNECT_REQ, client_flags)); S("o_con_scanning", OFF(VBIPROXY_CONNECT_REQ, scanning));
  S("o_con_bufcnt", OFF(VBIPROXY_CONNECT_REQ, buffer_count)); S("o_con_services", OFF(VBIPROXY_CONNECT_REQ, services));
  S("o_con_strict", OFF(VBIPROXY_CONNECT_REQ, strict));
  S("sz_con_strict", sizeof(((VBIPROXY_CONNECT_REQ *)0)->strict)); S("sz_con_bufcnt", sizeof(((VBIPROXY_CONNECT_REQ *)0)->buffer_count));
  S("o_svc_reset", OFF(VBIPROXY_SERVICE_REQ, reset)); S("o_svc_commit", OFF(VBIPROXY_SERVICE_REQ, commit));
  S("o_svc_strict", OFF(VBIPROXY_SERVICE_REQ, strict)); S("o_svc_services", OFF(VBIPROXY_SERVICE_REQ, services));
  S("sz_svc_strict", sizeof(((VBIPROXY_SERVICE_REQ *)0)->strict));
  S("o_tok_prio", OFF(VBIPROXY_CHN_TOKEN_REQ, chn_prio)); S("o_tok_valid", OFF(VBIPROXY_CHN_TOKEN_REQ, chn_profile.is_valid));
  S("o_tok_subprio", OFF(VBIPROXY_CHN_TOKEN_REQ, chn_profile.sub_prio)); S("o_tok_mindur", OFF(VBIPROXY_CHN_TOKEN_REQ, chn_profile.min_duration));
  S("o_tok_expdur", OFF(VBIPROXY_CHN_TOKEN_REQ, chn_profile.exp_duration));
  S("o_ntf_flags", OFF(VBIPROXY_CHN_NOTIFY_REQ, notify_flags)); S("o_ntf_scanning", OFF(VBIPROXY_CHN_NOTIFY_REQ, scanning));
  S("o_ioc_request", OFF(VBIPROXY_CHN_IOCTL_REQ, request)); S("o_ioc_argsize", OFF(VBIPROXY_CHN_IOCTL_REQ, arg_size));
  S("o_ioc_argdata", OFF(VBIPROXY_CHN_IOCTL_REQ, arg_data)); S("ioctl_req_size0", VBIPROXY_CHN_IOCTL_REQ_SIZE(0));
  S("ioctl_cnf_size0", VBIPROXY_CHN_IOCTL_CNF_SIZE(0));
  S("endian_magic", VBIPROXY_ENDIAN_MAGIC); S("endian_mismatch", VBIPROXY_ENDIAN_MISMATCH);
  S("compat_version", VBIPROXY_COMPAT_VERSION); S("version", VBIPROXY_VERSION);
  S("t_CONNECT_REQ", MSG_TYPE_CONNECT_REQ); S("t_CONNECT_CNF", MSG_TYPE_CONNECT_CNF); S("t_CONNECT_REJ", MSG_TYPE_CONNECT_REJ);
  S("t_CLOSE_REQ", MSG_TYPE_CLOSE_REQ); S("t_SLICED_IND", MSG_TYPE_SLICED_IND); S("t_SERVICE_REQ", MSG_TYPE_SERVICE_REQ);
  S("t_SERVICE_CNF", MSG_TYPE_SERVICE_CNF); S("t_SERVICE_REJ", MSG_TYPE_SERVICE_REJ); S("t_CHN_TOKEN_REQ", MSG_TYPE_CHN_TOKEN_REQ);
  S("t_CHN_TOKEN_CNF", MSG_TYPE_CHN_TOKEN_CNF); S("t_CHN_TOKEN_IND", MSG_TYPE_CHN_TOKEN_IND); S("t_CHN_NOTIFY_REQ", MSG_TYPE_CHN_NOTIFY_REQ);
  S("t_CHN_NOTIFY_CNF", MSG_TYPE_CHN_NOTIFY_CNF); S("t_CHN_RECLAIM_REQ", MSG_TYPE_CHN_RECLAIM_REQ); S("t_CHN_RECLAIM_CNF", MSG_TYPE_CHN_RECLAIM_CNF);
  S("t_CHN_SUSPEND_REQ", MSG_TYPE_CHN_SUSPEND_REQ); S("t_CHN_SUSPEND_CNF", MSG_TYPE_CHN_SUSPEND_CNF); S("t_CHN_SUSPEND_REJ", MSG_TYPE_CHN_SUSPEND_REJ);
  S("t_CHN_IOCTL_REQ", MSG_TYPE_CHN_IOCTL_REQ); S("t_CHN_IOCTL_CNF", MSG_TYPE_CHN_IOCTL_CNF); S("t_CHN_IOCTL_REJ", MSG_TYPE_CHN_IOCTL_REJ);
  S("t_CHN_CHANGE_IND", MSG_TYPE_CHN_CHANGE_IND); S("t_DAEMON_PID_REQ", MSG_TYPE_DAEMON_PID_REQ); S("t_DAEMON_PID_CNF", MSG_TYPE_DAEMON_PID_CNF);
  S("t_COUNT", MSG_TYPE_COUNT);
  S("tok_NONE", REQ_TOKEN_NONE); S("tok_RECLAIM", REQ_TOKEN_RECLAIM); S("tok_RELEASE", REQ_TOKEN_RELEASE); S("tok_GRANT", REQ_TOKEN_GRANT);
  S("tok_GRANTED", REQ_TOKEN_GRANTED); S("tok_RETURNED", REQ_TOKEN_RETURNED);
  S("controls_GRANTED", REQ_CONTROLS_CHN(REQ_TOKEN_GRANTED)); S("controls_RETURNED", REQ_CONTROLS_CHN(REQ_TOKEN_RETURNED));
  S("controls_NONE", REQ_CONTROLS_CHN(REQ_TOKEN_NONE)); S("controls_RECLAIM", REQ_CONTROLS_CHN(REQ_TOKEN_RECLAIM));
  S("controls_RELEASE", REQ_CONTROLS_CHN(REQ_TOKEN_RELEASE)); S("controls_GRANT", REQ_CONTROLS_CHN(REQ_TOKEN_GRANT));
  S("st_WAIT_CON_REQ", REQ_STATE_WAIT_CON_REQ); S("st_WAIT_CLOSE", REQ_STATE_WAIT_CLOSE); S("st_FORWARD", REQ_STATE_FORWARD); S("st_CLOSED", REQ_STATE_CLOSED);
  S("prio_BACKGROUND", VBI_CHN_PRIO_BACKGROUND); S("prio_INTERACTIVE", VBI_CHN_PRIO_INTERACTIVE); S("prio_RECORD", VBI_CHN_PRIO_RECORD);
  S("prio_DEFAULT", DEFAULT_CHN_PRIO);
  S("f_RELEASE", VBI_PROXY_CHN_RELEASE); S("f_TOKEN", VBI_PROXY_CHN_TOKEN); S("f_FLUSH", VBI_PROXY_CHN_FLUSH); S("f_NORM", VBI_PROXY_CHN_NORM);
  S("f_FAIL", VBI_PROXY_CHN_FAIL);
  S("cf_NO_TIMEOUTS", VBI_PROXY_CLIENT_NO_TIMEOUTS); S("cf_NO_STATUS_IND", VBI_PROXY_CLIENT_NO_STATUS_IND);
  S("api_UNKNOWN", VBI_API_UNKNOWN); S("api_V4L1", VBI_API_V4L1); S("api_V4L2", VBI_API_V4L2);
  S("min_strict", VBI_MIN_STRICT); S("max_strict", VBI_MAX_STRICT);
  S("n_services", sizeof(((PROXY_CLNT *)0)->services) / sizeof(((PROXY_CLNT *)0)->services[0]));
  S("sz_clnt", sizeof(PROXY_CLNT)); S("o_clnt_services", OFF(PROXY_CLNT, services)); S("o_clnt_msgbuf", OFF(PROXY_CLNT, msg_buf));
  S("connect_timeout", SRV_CONNECT_TIMEOUT); S("io_timeout", SRV_IO_TIMEOUT); S("max_devices", SRV_MAX_DEVICES);
  S("default_max_clients", DEFAULT_MAX_CLIENTS); S("default_buffer_count", DEFAULT_BUFFER_COUNT);
  S("raw_bits", VBI_SLICED_VBI_625 | VBI_SLICED_VBI_525);
  /* ioctl table: every request of type 'v' / 'V' that vbi_proxy_msg_check_ioctl knows */
  for (api = VBI_API_V4L1; api <= VBI_API_V4L2; ++api)
    for (ty = 0; ty < 2; ++ty) for (dir = 0; dir < 4; ++dir) for (nr = 0; nr < 256; ++nr) for (sz = 0; sz < 16384; ++sz) {
      unsigned req = (dir << 30) | (sz << 16) | ((ty ? 'V' : 'v') << 8) | nr; vbi_bool perm = 0;
      int r = vbi_proxy_msg_check_ioctl((VBI_DRIVER_API_REV) api, (int) req, 0, &perm);
      if (r >= 0) printf("ioctl %d %u %d %d\n", api, req, r, perm ? 1 : 0);
    }
  return 0;
}
'''


def _norm(src):
    src = re.sub(r"/\*.*?\*/", " ", src, flags=re.S)
    src = re.sub(r"//[^\n]*", " ", src)
    return re.sub(r"\s+", " ", src)


def _func_body(src, name):
    m = re.search(r"\n[^\n;{}]*\b" + re.escape(name) + r"\s*\([^;{}]*\)\s*\{", src)
    if not m:
        return None
    i = m.end()
    depth = 1
    while i < len(src) and depth:
        if src[i] == "{":
            depth += 1
        elif src[i] == "}":
            depth -= 1
        i += 1
    return src[m.end():i]


def guards(repo=None):
    """Which of the four guards (repairs proposed in fixes/C19-*.diff) the current source has.  Textual; the
    correspondence check cross-checks every flag (a wrong flag makes model and code disagree on the corpus replays)."""
    repo = repo or REPO
    pd = open(os.path.join(repo, "daemon", "proxyd.c")).read()
    pm = open(os.path.join(repo, "src", "proxy-msg.c")).read()
    g = {}
    # (1) SERVICE_REQ strict clamped before it indexes services[] (either in the message case or in take_service_req)
    tm = _func_body(pd, "vbi_proxyd_take_message") or ""
    m = re.search(r"case MSG_TYPE_SERVICE_REQ:(.*?)case MSG_TYPE_CHN_TOKEN_REQ:", tm, flags=re.S)
    svc_case = _norm(m.group(1)) if m else ""
    tsr = _norm(_func_body(pd, "vbi_proxyd_take_service_req") or "")
    clamp_case = bool(re.search(r"service_req\.strict\s*<\s*VBI_MIN_STRICT", svc_case) and
                      re.search(r"service_req\.strict\s*>\s*VBI_MAX_STRICT", svc_case))
    head = tsr.split("VBI_GET_SERVICE_P(req, new_strict)")[0]
    clamp_fn = bool(re.search(r"new_strict\s*<\s*VBI_MIN_STRICT", head) and re.search(r"new_strict\s*>\s*VBI_MAX_STRICT", head))
    g["svcStrictClamp"] = clamp_case or clamp_fn
    # connect path clamp (present in the unchanged tree)
    m = re.search(r"case MSG_TYPE_CONNECT_REQ:(.*?)case MSG_TYPE_DAEMON_PID_REQ:", tm, flags=re.S)
    con_case = _norm(m.group(1)) if m else ""
    g["conStrictClamp"] = bool(re.search(r"connect_req\.strict\s*<\s*VBI_MIN_STRICT", con_case) and
                               re.search(r"connect_req\.strict\s*>\s*VBI_MAX_STRICT", con_case)) or clamp_fn
    # (2) handle_read: the body is not read when the length in the header was found illegal
    hr = _norm(_func_body(pm, "vbi_proxy_msg_handle_read") or "")
    m = re.search(r"if \(([^{}]*?readOff >= sizeof ?\(VBIPROXY_MSG_HEADER\)\)?)\s*\)\s*\{[^{}]*in read phase two|"
                  r"if \(([^{}]*?)\)\s*\{\s*assert ?\(pIO->readLen <= \(size_t\) ?max_read_len\)", hr)
    cond2 = None
    m2 = re.search(r"if \(((?:[^(){}]|\([^(){}]*(?:\([^(){}]*\)[^(){}]*)*\))*)\)\s*\{\s*assert ?\(pIO->readLen <= \(size_t\) ?max_read_len\)", hr)
    if m2:
        cond2 = m2.group(1)
    g["readLenGuard"] = bool(cond2 and re.search(r"\bresult\b", cond2))
    # (3) CHN_NOTIFY_REQ with the TOKEN flag only honoured when the client has a token state
    m = re.search(r"case MSG_TYPE_CHN_NOTIFY_REQ:(.*?)case MSG_TYPE_CHN_SUSPEND_REQ:", tm, flags=re.S)
    ntf = _norm(m.group(1)) if m else ""
    tok_guard = False
    k = ntf.find("& VBI_PROXY_CHN_TOKEN")
    k2 = ntf.find("REQ_TOKEN_RETURNED", k)
    if k >= 0 and k2 > k:
        tok_guard = bool(re.search(r"token_state\s*!=\s*REQ_TOKEN_NONE", ntf[k:k2]))
    g["tokenReturnGuard"] = tok_guard
    # (2b) the `readOff == 0 || readOff == readLen` assertions of read_idle / is_idle (false during every partial read)
    ri = _norm(_func_body(pm, "vbi_proxy_msg_read_idle") or "assert")
    ii = _norm(_func_body(pm, "vbi_proxy_msg_is_idle") or "assert")
    g["idleAssertsRemoved"] = ("assert" not in ri) and ("assert" not in ii)
    # (5) token_grant: a client in REQ_TOKEN_RELEASE (reclaim sent, not confirmed) is not re-assigned / taken away silently
    tg = _norm(_func_body(pd, "vbi_proxyd_token_grant") or "")
    m = re.search(r"case REQ_TOKEN_RELEASE:(.*?)break;", tg)
    g["releaseWaitsCnf"] = bool(m and "REQ_TOKEN_GRANT" not in m.group(1))
    # (4) channel_update: vbi_capture_flush only with an open device
    cu = _norm(_func_body(pd, "vbi_proxyd_channel_update") or "")
    m = re.search(r"if \(([^{};]*forced_switch[^{};]*)\)\s*\{?\s*vbi_capture_flush", cu)
    g["flushNullGuard"] = bool(m and re.search(r"p_capture\s*!=\s*NULL", m.group(1)))
    return g


def _sources():
    return [os.path.join(REPO, p) for p in ("daemon/proxyd.c", "src/proxy-msg.c", "src/proxy-msg.h", "src/decoder.h",
                                            "src/sliced.h", "config.h", "src/videodev2k.h", "src/videodev.h")]


def probe():
    """-> dict of layout constants + 'ioctls': list of (api, request, size, perm)"""
    h = hashlib.sha256(PROBE.encode())
    for p in _sources():
        try:
            h.update(open(p, "rb").read())
        except OSError:
            h.update(b"-")
    key = h.hexdigest()[:20]
    os.makedirs(CACHE, exist_ok=True)
    cp = os.path.join(CACHE, "proxy_layout_%s.json" % key)
    if os.path.exists(cp):
        try:
            return json.load(open(cp))
        except ValueError:
            pass
    with tempfile.TemporaryDirectory() as d:
        c = os.path.join(d, "p.c")
        open(c, "w").write(PROBE)
        exe = os.path.join(d, "p")
        r = subprocess.run(["gcc", "-std=gnu99", "-O1", "-D_GNU_SOURCE", "-DHAVE_CONFIG_H", "-D_REENTRANT", "-w", "-I" + REPO,
                            "-I" + os.path.join(REPO, "src"), "-I" + os.path.join(REPO, "daemon"), c, "-o", exe,
                            "-ffunction-sections", "-fdata-sections", "-Wl,--gc-sections", "-lpthread"],
                           stdout=subprocess.PIPE, stderr=subprocess.STDOUT)
        if r.returncode != 0:
            raise SystemExit("proxy_util: probe does not compile:\n" + r.stdout.decode()[-3000:])
        out = subprocess.run([exe], stdout=subprocess.PIPE, timeout=300).stdout.decode()
    L = {"ioctls": []}
    for line in out.strip().split("\n"):
        w = line.split()
        if w[0] == "ioctl":
            L["ioctls"].append([int(x) for x in w[1:]])
        else:
            L[w[0]] = int(w[1])
    tmp = cp + ".tmp%d" % os.getpid()
    json.dump(L, open(tmp, "w"))
    os.replace(tmp, cp)
    return L


# ---------------------------------------------------------------------------------------------------------
# sender spec: encoders of the client -> daemon messages (host byte order body, network byte order header)
# ---------------------------------------------------------------------------------------------------------
MAGIC = b"LIBZVBI VBIPROXY"


class Enc:
    def __init__(self, L=None):
        self.L = L or probe()

    def hdr(self, mtype, length):
        return struct.pack(">II", length & 0xFFFFFFFF, mtype & 0xFFFFFFFF)

    def msg(self, mtype, body, length=None):
        return self.hdr(mtype, self.L["hdr"] + len(body) if length is None else length) + body

    def magics(self, magic=MAGIC, compat=None, version=None, endian=None):
        L = self.L
        b = bytearray(L["o_magic_endian"] + 4)
        b[0:len(magic)] = magic[:L["magic_len"]]
        struct.pack_into("<I", b, L["o_magic_compat"], L["compat_version"] if compat is None else compat)
        struct.pack_into("<I", b, L["o_magic_version"], L["version"] if version is None else version)
        struct.pack_into("<I", b, L["o_magic_endian"], L["endian_magic"] if endian is None else endian)
        return bytes(b)

    def connect(self, services=0, strict=0, scanning=0, buffer_count=5, flags=0, magic=MAGIC, compat=None, endian=None, name=b"verif"):
        L = self.L
        b = bytearray(L["sz_connect_req"])
        mg = self.magics(magic, compat, None, endian)
        b[0:len(mg)] = mg
        b[L["o_con_name"]:L["o_con_name"] + len(name)] = name
        struct.pack_into("<i", b, L["o_con_pid"], 4242)
        struct.pack_into("<I", b, L["o_con_flags"], flags & 0xFFFFFFFF)
        struct.pack_into("<I", b, L["o_con_scanning"], scanning & 0xFFFFFFFF)
        b[L["o_con_bufcnt"]] = buffer_count & 0xFF
        struct.pack_into("<I", b, L["o_con_services"], services & 0xFFFFFFFF)
        b[L["o_con_strict"]] = strict & 0xFF
        return self.msg(L["t_CONNECT_REQ"], bytes(b))

    def service(self, services, strict=0, reset=0, commit=0):
        L = self.L
        b = bytearray(L["sz_service_req"])
        b[L["o_svc_reset"]] = reset & 0xFF
        b[L["o_svc_commit"]] = commit & 0xFF
        b[L["o_svc_strict"]] = strict & 0xFF
        struct.pack_into("<I", b, L["o_svc_services"], services & 0xFFFFFFFF)
        return self.msg(L["t_SERVICE_REQ"], bytes(b))

    def token(self, prio, valid=1, sub_prio=0, min_dur=0, exp_dur=0):
        L = self.L
        b = bytearray(L["sz_token_req"])
        struct.pack_into("<I", b, L["o_tok_prio"], prio & 0xFFFFFFFF)
        b[L["o_tok_valid"]] = valid & 0xFF
        b[L["o_tok_subprio"]] = sub_prio & 0xFF
        struct.pack_into("<q", b, L["o_tok_mindur"], min_dur)
        struct.pack_into("<q", b, L["o_tok_expdur"], exp_dur)
        return self.msg(L["t_CHN_TOKEN_REQ"], bytes(b))

    def notify(self, flags, scanning=0):
        L = self.L
        b = bytearray(L["sz_notify_req"])
        struct.pack_into("<I", b, L["o_ntf_flags"], flags & 0xFFFFFFFF)
        struct.pack_into("<I", b, L["o_ntf_scanning"], scanning & 0xFFFFFFFF)
        return self.msg(L["t_CHN_NOTIFY_REQ"], bytes(b))

    def suspend(self):
        L = self.L
        return self.msg(L["t_CHN_SUSPEND_REQ"], bytes(L["sz_notify_req"]))   # check_msg compares with sizeof(chn_notify_req)

    def ioctl(self, request, arg_size, fill=0):
        """arg_size >= 1 (the protocol transmits arg_size-1 bytes of data, see VBIPROXY_CHN_IOCTL_REQ_SIZE)"""
        L = self.L
        n = L["ioctl_req_size0"] + arg_size
        b = bytearray(max(n, L["o_ioc_argsize"] + 4))
        struct.pack_into("<I", b, L["o_ioc_request"], request & 0xFFFFFFFF)
        struct.pack_into("<I", b, L["o_ioc_argsize"], arg_size & 0xFFFFFFFF)
        for i in range(L["o_ioc_argdata"], len(b)):
            b[i] = fill & 0xFF
        return self.msg(L["t_CHN_IOCTL_REQ"], bytes(b[:n]))

    def reclaim_cnf(self):
        return self.msg(self.L["t_CHN_RECLAIM_CNF"], b"")

    def close(self):
        return self.msg(self.L["t_CLOSE_REQ"], b"")

    def pid_req(self, magic=MAGIC, endian=None):
        return self.msg(self.L["t_DAEMON_PID_REQ"], self.magics(magic, None, None, endian))


def hexs(b):
    return b.hex() if b else "-"


# ---------------------------------------------------------------------------------------------------------
# decoding of harness / driver output
# ---------------------------------------------------------------------------------------------------------
def parse_state(line):
    """'ok n=2 | c0:d0:F:GD:p1:... | d0:... | al..' -> dict(n, clients=[dict], devs=[str], tail) or None"""
    if not line.startswith("ok n="):
        return None
    try:
        parts = line.split(" | ") if " | " in line else line.split("|")
        parts = [p.strip() for p in line.split("|")]
        n = int(parts[0].split("=")[1])
        cl = []
        for w in parts[1].split():
            f = w.split(":")
            cl.append({"h": int(f[0][1:]), "dev": int(f[1][1:]), "st": f[2], "tok": f[3], "prio": int(f[4][1:]),
                       "ind": int(f[5][1:]), "io": f[6], "as": int(f[7][2:], 16), "sv": f[8], "raw": w,
                       "pf": f[12], "sc": f[13], "q": int(f[14][1:])})
        return {"n": n, "clients": cl, "devs": parts[2].split(), "tail": parts[3] if len(parts) > 3 else ""}
    except (ValueError, IndexError):
        return None


def parse_recv(line):
    """'ok A:.. B:..' -> list of message strings ('-' -> [])"""
    if not line.startswith("ok"):
        return None
    w = line.split()[1:]
    return [x for x in w if x != "-"]
