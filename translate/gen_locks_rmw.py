#!/usr/bin/env python3
"""C20 translator, part 2 (atomicity of read-modify-write sequences):
/repo/src/{vbi,caption,packet,trigger,wss,decoder}.c -> lean/ZvbiModel/Generated/LocksRmw.lean

Lock discipline (gen_locks.py) says WHICH mutex is held at every access.  It does not say that a value
read under the mutex is still current when the thread writes the variable again: `v = get(); set(v - 1);`
with get/set locking for one load / one store each is race free and loses updates.  This script extracts,
for every documented API function (all callees of the scope files inlined call-site sensitively, so an
accessor that locks internally becomes a critical section of its own at each call site):

  * the critical sections (one per executed `pthread_mutex_lock` statement of the walk) with the accesses
    to the variable(s) the mutex protects;
  * for every write of a protected variable x the reads of x by the same activation it DEPENDS on:
      data    the stored value is computed from the value read (same expression, or through local
              variables, parameters and return values of inlined callees),
      control the statement (or the call that leads to it) is nested in an if / loop / switch whose
              condition is computed from the value read, or follows an early exit taken under such a
              condition in the same function instance;
    and whether the read's section is still open at the write (`same`): a section is identified by the
    executed lock statement, it is closed by the unlock on the walked path, so a read in one call of
    an accessor and a write in the next are never `same`;
  * per pair: the constant stored (when the right-hand side is a literal, also through a parameter),
    and whether the read's section itself wrote x after the read (`consumed`: the read was the R of a
    read-modify-write that completed inside its section);
  * the writes of x by the OTHER (concurrent) roles, with their constants.

The walk is a path-insensitive abstract interpretation of the statement tree (both branches of an `if`
are walked on copies of the state and joined: taints united, sections closed on either path are closed;
loop bodies are walked twice so that values flow around the back edge).  Anything it cannot resolve is
reported in the conservative direction (dependence assumed, constant unknown, section not the same).
Parser, preprocessing, pointer provenance and the shared-field list are those of gen_locks.py.
"""
import hashlib, json, os, re, sys

sys.path.insert(0, os.path.dirname(os.path.abspath(__file__)))
import gen_locks as GL

VERIF = GL.VERIF
REPO = GL.REPO
OUT = os.path.join(VERIF, "lean", "ZvbiModel", "Generated", "LocksRmw.lean")
SIDE = os.path.join(VERIF, ".cache", "locks_rmw.json")

# variable -> mutex that protects it (Locks/Instance.lean: isCcChannel / isRd3 / isChswcd; theorem table_protection)
PROTECT = {"vbi.chswcd": "chswcd", "cc.channel": "cc", "cc.channel.dirty": "cc", "rd3": "rd"}
# tracked variables: every dependent pair is listed in the Lean table.  vbi.chswcd is one memory word (pairs exact);
# cc.channel.dirty = the dirty.{y0,y1,roll} members of the 18 caption pages, the only part of cc.channel that BOTH the
# decoding thread and vbi_fetch_cc_page() write (field- and page-insensitive: dependence is over-approximated).
# The others are regions (the rest of cc.channel / the whole vbi3_raw_decoder): their pairs are field-insensitive; they
# are listed for the roles that run concurrently with the decoder and only counted for vbi_decode itself.
SCALAR = ["vbi.chswcd", "cc.channel.dirty"]
WHOLE = "cc.channel*"          # access to a whole page / channel: the dirty members and the rest

_orig_var_of = GL.var_of


def var_of(loc):
    v = _orig_var_of(loc)
    if v == "cc.channel":
        path = tuple(loc[1])
        if "dirty" in path:
            return "cc.channel.dirty"
        if path in (("cc", "channel"), ("cc", "channel", "pg")):
            return WHOLE
    return v


GL.var_of = var_of


def expand(effs):
    out = []
    for ef in effs:
        if ef[0] in ("read", "write") and ef[1] == WHOLE:
            out.append((ef[0], "cc.channel"))
            out.append((ef[0], "cc.channel.dirty"))
        else:
            out.append(ef)
    return list(dict.fromkeys(out)) if all(isinstance(e, tuple) and len(e) == 2 for e in out) else _dedup(out)


def _dedup(out):
    seen, res = set(), []
    for e in out:
        if e[0] in ("read", "write"):
            if e in seen:
                continue
            seen.add(e)
        res.append(e)
    return res
IDENT = re.compile(r"[A-Za-z_]\w*$")
NUM = re.compile(r"-?\d+$")


class St:
    """abstract state of the walk"""
    def __init__(self):
        self.held = []            # [(mutex, token)]
        self.closed = set()       # tokens of sections already closed on some path
        self.taint = {}           # local identifier -> frozenset(read ids)
        self.consts = {}          # local identifier -> int (parameters bound to literals)

    def copy(self):
        s = St()
        s.held = list(self.held)
        s.closed = set(self.closed)
        s.taint = dict(self.taint)
        s.consts = dict(self.consts)
        return s

    def join(self, o):
        self.closed |= o.closed
        for k, v in o.taint.items():
            self.taint[k] = self.taint.get(k, frozenset()) | v
        for k in list(self.consts):
            if o.consts.get(k) != self.consts[k]:
                del self.consts[k]


class Walk:
    def __init__(self, gen, root):
        self.g = gen
        self.b = GL.Builder(gen)
        self.root = root
        self.reads = []           # id -> dict(var, fn, line, token, consumed)
        self.sections = []        # token -> dict(mutex, fn, line, chain)
        self.pairs = {}           # key -> dict
        self.writes = []          # every write of a protected variable: (var, fn, line, const, token)
        self.ntok = 0

    # ---- helpers -------------------------------------------------------------------------------
    def token_of(self, st, var):
        m = PROTECT.get(var)
        for (mx, tok) in st.held:
            if mx == m:
                return tok
        return None

    def new_read(self, st, var, fn, line, path=""):
        self.reads.append(dict(var=var, fn=fn, line=line, token=self.token_of(st, var), consumed=False, path=path))
        return len(self.reads) - 1

    def expr_locals_taint(self, ts, st):
        t = frozenset()
        for i, x in enumerate(ts):
            if x in st.taint and (i == 0 or ts[i - 1] not in ("->", ".")):
                t |= st.taint[x]
        return t

    def const_of(self, rhs, st):
        ts = [x for x in rhs if x not in ("(", ")")]
        if len(ts) == 1:
            if NUM.match(ts[0]):
                return int(ts[0])
            if ts[0] in st.consts:
                return st.consts[ts[0]]
        if len(ts) == 2 and ts[0] == "-" and NUM.match(ts[1]):
            return -int(ts[1])
        return None

    # ---- expressions ---------------------------------------------------------------------------
    def expr(self, toks, st, env, ctrl, line, frame):
        """effects of one expression; returns its taint (data)"""
        if not toks:
            return frozenset()
        ts = [t[0] for t in toks]
        if line == 0 and toks:
            line = toks[0][2]
        effs = self.g.effects(toks, env, line)
        # summarised calls (raw_decoder.c, sampling_par.c, libc): every argument pointing into a shared object is read,
        # and written unless the parameter is const (same rules as gen_locks.Builder.emit_effect)
        extra = []
        for ef in effs:
            if ef[0] != "call" or ef[1] in self.g.funcs or ef[1] in GL.PURE_EXTERN or ef[1].startswith("pthread_mutex_"):
                continue
            consts = self.g.summary.get(ef[1])
            for idx, a in enumerate(ef[2]):
                loc = self.g.eval_ptr(a, env)
                v = GL.var_of(loc) if loc else None
                if v is None:
                    continue
                if consts is not None:
                    wr = not (idx < len(consts) and consts[idx])
                elif ef[1] in GL.WRITE_FIRST_ARG:
                    wr = idx == 0
                else:
                    wr = True
                extra.append(("read", v))
                if wr:
                    extra.append(("write", v))
        effs = expand([e for e in effs if e[0] == "read"] + [e for e in extra if e[0] == "read"]
                      + [e for e in effs if e[0] not in ("read", "write")]
                      + [e for e in effs if e[0] == "write"] + [e for e in extra if e[0] == "write"])
        data = self.expr_locals_taint(ts, st)
        own_reads = []
        for ef in effs:
            if ef[0] == "read" and ef[1] in PROTECT:
                rid = self.new_read(st, ef[1], env.fn, line, frame.get("path", ""))
                own_reads.append(rid)
                data |= frozenset([rid])
        for ef in effs:
            if ef[0] == "call":
                data |= self.call(ef, st, env, ctrl | data, frame)
        # assignments to locals
        d = 0
        for i, t in enumerate(ts):
            if t in "([{":
                d += 1
            elif t in ")]}":
                d -= 1
            elif (t in GL.ASSIGN_OPS) and i >= 1 and IDENT.match(ts[i - 1]) and (i < 2 or ts[i - 2] not in ("->", ".")):
                name = ts[i - 1]
                st.taint[name] = st.taint.get(name, frozenset()) | data | ctrl
                if t == "=" and d == 0:
                    j = i + 1
                    while j < len(ts) and not (ts[j] == "," and True):
                        j += 1
                    c = self.const_of(ts[i + 1:j], st)
                    if c is not None and name not in st.consts and not (data | ctrl):
                        st.consts[name] = c
                    elif name in st.consts and st.consts.get(name) != c:
                        del st.consts[name]
                else:
                    st.consts.pop(name, None)
            elif t in ("++", "--"):
                for k in (i - 1, i + 1):
                    if 0 <= k < len(ts) and IDENT.match(ts[k]) and (k == 0 or ts[k - 1] not in ("->", ".")):
                        st.consts.pop(ts[k], None)
        for ef in effs:
            if ef[0] == "write" and ef[1] in PROTECT:
                var = ef[1]
                tok = self.token_of(st, var)
                const = None
                # <chain> = <rhs>  as the whole expression
                dd = 0
                for i, t in enumerate(ts):
                    if t in "([{":
                        dd += 1
                    elif t in ")]}":
                        dd -= 1
                    elif t == "=" and dd == 0:
                        const = self.const_of(ts[i + 1:], st)
                        break
                self.writes.append((var, env.fn, line, const, tok))
                for rid in sorted(data | ctrl):
                    r = self.reads[rid]
                    if r["var"] != var:
                        continue
                    same = tok is not None and r["token"] == tok and tok not in st.closed
                    kind = "data" if rid in data else "ctrl"
                    key = (var, r["path"], r["fn"], r["line"], frame.get("path", ""), env.fn, line, kind)
                    p = self.pairs.get(key)
                    if p is None:
                        self.pairs[key] = dict(var=var, read_fn=r["fn"], read_line=r["line"], write_fn=env.fn, write_line=line,
                                               kind=kind, same=same, const=const, rid=[rid], read_via=r["path"], write_via=frame.get("path", ""),
                                               read_sec=r["token"], write_sec=tok)
                    else:
                        p["same"] = p["same"] and same
                        if p["const"] != const:
                            p["const"] = None
                        p["rid"].append(rid)
                # the sections of x that are open now have written x after their reads
                for r in self.reads:
                    if r["var"] == var and tok is not None and r["token"] == tok and tok not in st.closed:
                        r["consumed"] = True
        return data

    def call(self, ef, st, env, ctrl, frame):
        _, fname, args, line = ef
        if fname in ("pthread_mutex_lock", "pthread_mutex_unlock", "pthread_mutex_trylock"):
            loc = self.g.eval_ptr(args[0], env)
            m = GL.MUTEX_LOC.get((loc[0], tuple(loc[1]))) if loc else None
            if m is None:
                return frozenset()
            if fname.endswith("unlock"):
                for k in range(len(st.held) - 1, -1, -1):
                    if st.held[k][0] == m:
                        st.closed.add(st.held[k][1])
                        del st.held[k]
                        break
            else:
                tok = len(self.sections)
                self.sections.append(dict(mutex=m, fn=env.fn, line=line, chain=list(env.chain)))
                st.held.append((m, tok))
            return frozenset()
        if fname not in self.g.funcs:
            # extern / summarised: the value returned may depend on every argument
            t = frozenset()
            for a in args:
                t |= self.expr_locals_taint([x[0] for x in a], st)
            return t
        if fname in frame["stack"]:
            return frozenset()
        f = self.g.funcs[fname]
        arg_locs = [self.g.eval_ptr(a, env) for a in args]
        env2 = GL.Env(f.name, env.chain + (fname,), self.b.param_binds(f, arg_locs))
        if f.ast is None:
            f.ast = GL.P(f.body).stmt()
        self.b.prebind(f.ast, env2)
        saved_t, saved_c = st.taint, st.consts
        st.taint, st.consts = {}, {}
        for idx, ptoks in enumerate(f.params):
            ids = [x[0] for x in ptoks if IDENT.match(x[0]) and x[0] not in GL.TYPE_WORDS]
            if not ids or idx >= len(args):
                continue
            pname = ids[-1]
            ats = [x[0] for x in args[idx]]
            t = frozenset()
            for i, x in enumerate(ats):
                if x in saved_t and (i == 0 or ats[i - 1] not in ("->", ".")):
                    t |= saved_t[x]
            # shared reads inside the argument expression were recorded by the caller's effects() pass
            if t:
                st.taint[pname] = t
            c = None
            a2 = [x for x in ats if x not in ("(", ")")]
            if len(a2) == 1 and NUM.match(a2[0]):
                c = int(a2[0])
            elif len(a2) == 1 and a2[0] in saved_c:
                c = saved_c[a2[0]]
            if c is not None:
                st.consts[pname] = c
        fr2 = dict(stack=frame["stack"] + [fname], ret=frozenset(), fnctrl=frozenset(), retctrl=frozenset(), retvals=set(),
                   path=(frame.get("path", "") + ">" if frame.get("path") else "") + "%s:%d" % (env.fn, line))
        # taint of arguments that are expressions over shared reads of the caller: `data` of the caller's
        # expression is passed as control context only; values flow through the parameter taints above.
        self.stmt(f.ast, st, env2, ctrl, fr2, 0)
        st.taint, st.consts = saved_t, saved_c
        # the value returned carries the control context of the return statements unless every return
        # statement returns the same literal (or the function returns nothing)
        vals = fr2["retvals"]
        same_literal = len(vals) <= 1 and all(NUM.match(x) or x in "()-" for v in vals for x in v)
        return fr2["ret"] if same_literal else fr2["ret"] | fr2["retctrl"]

    # ---- statements ----------------------------------------------------------------------------
    def stmt(self, s, st, env, ctrl, frame, depth):
        """returns True when control may fall through"""
        k = s[0]
        c = ctrl | frame["fnctrl"]
        if k == "block":
            ft = True
            for x in s[1]:
                ft = self.stmt(x, st, env, ctrl, frame, depth)
            return ft
        if k == "expr":
            self.expr(s[1], st, env, c, s[2], frame)
            return True
        if k == "return":
            t = self.expr(s[1], st, env, c, s[2], frame)
            frame["ret"] = frame["ret"] | t
            frame["retctrl"] = frame["retctrl"] | c
            frame["retvals"].add(tuple(x[0] for x in s[1]))
            return False
        if k == "if":
            ct = self.expr(s[1], st, env, c, 0, frame)
            a = st.copy()
            fa = self.stmt(s[2], a, env, ctrl | ct, frame, depth)
            b = st.copy()
            fb = self.stmt(s[3], b, env, ctrl | ct, frame, depth) if s[3] else True
            if not (fa and fb) and ct:
                frame["fnctrl"] = frame["fnctrl"] | ct
            if fa and fb:
                st.held, st.closed, st.taint, st.consts = a.held, a.closed, a.taint, a.consts
                st.join(b)
            elif fa:
                st.held, st.closed, st.taint, st.consts = a.held, a.closed, a.taint, a.consts
                st.closed |= b.closed
                for kk, v in b.taint.items():
                    st.taint[kk] = st.taint.get(kk, frozenset()) | v
            else:
                st.held, st.closed, st.taint, st.consts = b.held, b.closed, b.taint, b.consts
                st.closed |= a.closed
                for kk, v in a.taint.items():
                    st.taint[kk] = st.taint.get(kk, frozenset()) | v
            # a section that is closed on one of the joined paths is not "the same section" afterwards:
            # the state after the join holds a fresh section token for that mutex
            if fa and fb:
                for kk in range(len(st.held)):
                    m, tok = st.held[kk]
                    other = [t for (mm, t) in b.held if mm == m]
                    if tok in st.closed or (other and other[0] != tok):
                        self.sections.append(dict(mutex=m, fn=env.fn, line=0, chain=list(env.chain) + ["<join>"]))
                        st.held[kk] = (m, len(self.sections) - 1)
            return fa or fb
        if k in ("while", "do", "for"):
            rounds = 2 if depth < 2 else 1
            if k == "for":
                self.expr(s[1], st, env, c, 0, frame)
            for _ in range(rounds):
                if k == "while":
                    ct = self.expr(s[1], st, env, c, 0, frame)
                    self.stmt(s[2], st, env, ctrl | ct, frame, depth + 1)
                elif k == "do":
                    self.stmt(s[1], st, env, ctrl, frame, depth + 1)
                    ct = self.expr(s[2], st, env, c, 0, frame)
                    ctrl = ctrl | ct
                else:
                    ct = self.expr(s[2], st, env, c, 0, frame)
                    self.stmt(s[4], st, env, ctrl | ct, frame, depth + 1)
                    self.expr(s[3], st, env, c | ct, 0, frame)
            return True
        if k == "switch":
            ct = self.expr(s[1], st, env, c, 0, frame)
            self.stmt(s[2], st, env, ctrl | ct, frame, depth)
            return True
        if k in ("goto", "break", "continue"):
            return False
        return True            # case, label


def analyse(gen, name):
    w = Walk(gen, name)
    f = gen.funcs[name]
    env = GL.Env(f.name, (name,), w.b.param_binds(f, None))
    if f.ast is None:
        f.ast = GL.P(f.body).stmt()
    w.b.prebind(f.ast, env)
    st = St()
    frame = dict(stack=[name], ret=frozenset(), fnctrl=frozenset(), retctrl=frozenset(), retvals=set())
    w.stmt(f.ast, st, env, frozenset(), frame, 0)
    for p in w.pairs.values():
        p["consumed"] = all(w.reads[r]["consumed"] for r in p["rid"])
        del p["rid"]
    return w


def lean_str(s):
    return json.dumps(s)


def main():
    h = hashlib.sha256(open(os.path.abspath(__file__), "rb").read())
    h.update(GL.input_hash().encode())
    ih = h.hexdigest()
    try:
        if os.path.exists(OUT) and json.load(open(SIDE)).get("input_sha256") == ih and ("-- input " + ih) in open(OUT).read():
            print("gen_locks_rmw: sources unchanged, table kept")
            return
    except (OSError, ValueError):
        pass
    gen = GL.Gen()
    for fn in GL.INLINE_FILES + GL.SUMMARY_FILES:
        toks = GL.tokenize(GL.preprocess(fn))
        GL.collect_array_fields(toks)
        for f in GL.find_functions(toks, fn):
            if fn in GL.INLINE_FILES:
                gen.funcs.setdefault(f.name, f)
            else:
                consts = []
                for ptoks in f.params:
                    ts = [t[0] for t in ptoks]
                    consts.append("const" in ts and "*" in ts)
                gen.summary[f.name] = consts
    role_fns = []
    for rn, multi, fns in GL.ROLES:
        for f in fns:
            role_fns.append((rn, multi, f))
    missing = [f for _, _, f in role_fns if f not in gen.funcs]
    if missing:
        sys.exit("gen_locks_rmw: functions not found in the current source: %s" % missing)
    pairs, region_pairs, writes, sections, region_writers = [], [], [], [], []
    for rn, multi, fname in role_fns:
        w = analyse(gen, fname)
        for key in sorted(w.pairs):
            p = dict(w.pairs[key], role=rn, root=fname)
            (pairs if p["var"] in SCALAR else region_pairs).append(p)
        for var in sorted({x[0] for x in w.writes if x[0] not in SCALAR}):
            region_writers.append(dict(var=var, role=rn, multi=multi, root=fname,
                                       locked=all(x[4] is not None for x in w.writes if x[0] == var)))
        seen = set()
        for (var, fn, line, const, tok) in w.writes:
            if var in SCALAR and (var, fn, line, const) not in seen:
                seen.add((var, fn, line, const))
                writes.append(dict(var=var, role=rn, multi=multi, root=fname, fn=fn, line=line, const=const,
                                   locked=tok is not None))
        # sections of the scalar variables' mutexes, with the accesses made inside
        for tok, sec in enumerate(w.sections):
            if sec["mutex"] not in [PROTECT[v] for v in SCALAR]:
                continue
            nr = len({(r["fn"], r["line"]) for r in w.reads if r["token"] == tok})
            nw = len({(x[1], x[2]) for x in w.writes if x[4] == tok})
            key = (fname, "/".join(sec["chain"]), sec["line"])
            if key not in [s["key"] for s in sections]:
                sections.append(dict(key=key, root=fname, role=rn, mutex=sec["mutex"], fn=sec["fn"], line=sec["line"],
                                     chain="/".join(sec["chain"]), reads=nr, writes=nw))
    L = []
    L.append("-- input " + ih)
    L.append("/-! GENERATED by translate/gen_locks_rmw.py from %s - do not edit." % ", ".join("src/" + f for f in GL.INLINE_FILES))
    L.append("Dependent read/write pairs of the mutex-protected scalar variables (see the script's header). -/")
    L.append("namespace Zvbi.Generated.LocksRmw")
    L.append("")
    L.append("/-- a write of `var` by an activation of the role function `root` that depends on an earlier read of")
    L.append("`var` by the same activation; `same` = read and write lie in ONE critical section of the variable's mutex;")
    L.append("`ctrl` = control dependence only; `const` = the literal stored; `consumed` = the read's own section")
    L.append("wrote `var` after the read -/")
    L.append("structure Pair where")
    L.append("  var : String")
    L.append("  role : String")
    L.append("  root : String")
    L.append("  readFn : String")
    L.append("  readLine : Nat")
    L.append("  writeFn : String")
    L.append("  writeLine : Nat")
    L.append("  readVia : String")
    L.append("  writeVia : String")
    L.append("  ctrl : Bool")
    L.append("  same : Bool")
    L.append("  const : Option Int")
    L.append("  consumed : Bool")
    L.append("  deriving Repr, DecidableEq")
    L.append("")
    L.append("/-- a write of a scalar shared variable somewhere in a role (`multi` = the role may run in several")
    L.append("threads besides the decoding thread); `locked` = the variable's mutex is held -/")
    L.append("structure Write where")
    L.append("  var : String")
    L.append("  role : String")
    L.append("  multi : Bool")
    L.append("  fn : String")
    L.append("  line : Nat")
    L.append("  const : Option Int")
    L.append("  locked : Bool")
    L.append("  deriving Repr, DecidableEq")
    L.append("")
    L.append("/-- a critical section (executed lock statement, call-site sensitive) of a scalar variable's mutex -/")
    L.append("structure Section where")
    L.append("  root : String")
    L.append("  chain : String")
    L.append("  line : Nat")
    L.append("  reads : Nat")
    L.append("  writes : Nat")
    L.append("  deriving Repr, DecidableEq")
    L.append("")

    def opt(c):
        return "none" if c is None else "some (%d)" % c

    def b(x):
        return "true" if x else "false"
    L.append("def pairs : List Pair := [")
    L.append(",\n".join("  ⟨%s, %s, %s, %s, %d, %s, %d, %s, %s, %s, %s, %s, %s⟩" % (
        lean_str(p["var"]), lean_str(p["role"]), lean_str(p["root"]), lean_str(p["read_fn"]), p["read_line"],
        lean_str(p["write_fn"]), p["write_line"], lean_str(p["read_via"]), lean_str(p["write_via"]), b(p["kind"] == "ctrl"), b(p["same"]), opt(p["const"]), b(p["consumed"]))
        for p in pairs))
    L.append("]")
    L.append("")
    L.append("def writes : List Write := [")
    L.append(",\n".join("  ⟨%s, %s, %s, %s, %d, %s, %s⟩" % (lean_str(x["var"]), lean_str(x["role"]), b(x["multi"]), lean_str(x["fn"]),
                                                         x["line"], opt(x["const"]), b(x["locked"])) for x in writes))
    L.append("]")
    L.append("")
    L.append("def sections : List Section := [")
    L.append(",\n".join("  ⟨%s, %s, %d, %d, %d⟩" % (lean_str(s["root"]), lean_str(s["chain"]), s["line"], s["reads"], s["writes"])
                        for s in sections))
    L.append("]")
    L.append("")
    L.append("/-- which role functions write the region variables (the rest of cc.channel, rd3) -/")
    L.append("structure RegionWriter where")
    L.append("  var : String")
    L.append("  role : String")
    L.append("  multi : Bool")
    L.append("  root : String")
    L.append("  locked : Bool")
    L.append("  deriving Repr, DecidableEq")
    L.append("")
    L.append("def regionWriters : List RegionWriter := [")
    L.append(",\n".join("  ⟨%s, %s, %s, %s, %s⟩" % (lean_str(x["var"]), lean_str(x["role"]), b(x["multi"]), lean_str(x["root"]), b(x["locked"]))
                        for x in region_writers))
    L.append("]")
    L.append("")
    L.append("/-- dependent pairs (field-insensitive) on the region variables in the roles that run concurrently with the decoder -/")
    L.append("def regionPairs : List Pair := [")
    rp = [p for p in region_pairs if p["root"] != "vbi_decode"]
    L.append(",\n".join("  ⟨%s, %s, %s, %s, %d, %s, %d, %s, %s, %s, %s, %s, %s⟩" % (
        lean_str(p["var"]), lean_str(p["role"]), lean_str(p["root"]), lean_str(p["read_fn"]), p["read_line"],
        lean_str(p["write_fn"]), p["write_line"], lean_str(p["read_via"]), lean_str(p["write_via"]), b(p["kind"] == "ctrl"),
        b(p["same"]), opt(p["const"]), b(p["consumed"])) for p in rp))
    L.append("]")
    L.append("")
    L.append("/-- the same for vbi_decode itself (sections end at every event callback): counted only -/")
    L.append("def decodeRegionPairs : Nat := %d" % len([p for p in region_pairs if p["root"] == "vbi_decode"]))
    L.append("def decodeRegionSplitPairs : Nat := %d" % len([p for p in region_pairs if p["root"] == "vbi_decode" and not p["same"]]))
    L.append("")
    L.append("end Zvbi.Generated.LocksRmw")
    text = "\n".join(L) + "\n"
    os.makedirs(os.path.dirname(OUT), exist_ok=True)
    if not os.path.exists(OUT) or open(OUT).read() != text:
        open(OUT, "w").write(text)
    for s in sections:
        s["key"] = list(s["key"])
    side = dict(input_sha256=ih, pairs=pairs, writes=writes, sections=sections, region_writers=region_writers,
                region_pairs=[p for p in region_pairs if not p["same"]][:400], n_region_pairs=len(region_pairs))
    os.makedirs(os.path.dirname(SIDE), exist_ok=True)
    stext = json.dumps(side, indent=1)
    if not os.path.exists(SIDE) or open(SIDE).read() != stext:
        open(SIDE, "w").write(stext)
    print("gen_locks_rmw: %d sections, %d dependent pairs on scalar variables (%d split), %d writes; region pairs %d (%d split)" % (
        len(sections), len(pairs), len([p for p in pairs if not p["same"]]), len(writes), len(region_pairs),
        len([p for p in region_pairs if not p["same"]])))
    for p in pairs:
        print("gen_locks_rmw:   %s %s: read %s:%d [%s] -> write %s:%d [%s]  %s %s const=%s consumed=%s" % (
            p["var"], p["root"], p["read_fn"], p["read_line"], p["read_via"], p["write_fn"], p["write_line"], p["write_via"], p["kind"],
            "same-section" if p["same"] else "SPLIT", p["const"], p["consumed"]))


if __name__ == "__main__":
    main()
