#!/usr/bin/env python3
"""Translator for component `ev` (C11): the body of vbi_event_enable() (src/vbi.c) as a program
-> lean/ZvbiModel/Generated/EvEnable.lean.

vbi_event_enable is a straight-line sequence of `if (activate & SET) ...` branches, one of them with an
inner guard `if (!(vbi->event_mask & SET))`.  Every statement of every branch is translated to a constructor
of `Stmt` (which reset it is, with its index / value); a statement this script does not know makes it fail,
and the check reports that.  The model (`ZvbiModel/Ev/Enable.lean`) interprets the generated program, and
`Props/C11Enable.lean` proves that the program resets exactly the state each event class stands for - so a
change of an index (`prog_info[1]` -> `[0]`), a dropped assignment or an added one changes the generated file
and the theorem no longer checks.  Written only when the content changed.
"""
import os, re, sys

REPO = os.environ.get("ZVBI_REPO", "/repo")
HERE = os.path.dirname(os.path.abspath(__file__))
OUT = os.path.join(HERE, "..", "lean", "ZvbiModel", "Generated", "EvEnable.lean")


def die(msg):
    raise SystemExit("gen_evenable: " + msg)


def strip_comments(s):
    s = re.sub(r"/\*.*?\*/", " ", s, flags=re.S)
    return re.sub(r"//[^\n]*", " ", s)


def balanced(s, i, open_ch, close_ch):
    """s[i] == open_ch; returns index after the matching close_ch"""
    assert s[i] == open_ch
    d = 0
    for j in range(i, len(s)):
        if s[j] == open_ch:
            d += 1
        elif s[j] == close_ch:
            d -= 1
            if d == 0:
                return j + 1
    die("unbalanced %s" % open_ch)


def parse_stmts(s):
    """-> list of ('if', cond, [stmts]) / ('s', text)"""
    out, i = [], 0
    while True:
        while i < len(s) and s[i].isspace():
            i += 1
        if i >= len(s):
            return out
        m = re.match(r"if\s*\(", s[i:])
        if m:
            j = i + m.end() - 1
            k = balanced(s, j, "(", ")")
            cond = s[j + 1:k - 1]
            while s[k].isspace():
                k += 1
            if s[k] == "{":
                e = balanced(s, k, "{", "}")
                body = parse_stmts(s[k + 1:e - 1])
                i = e
            else:
                # a single statement (possibly itself an if)
                rest = parse_stmts_one(s, k)
                body, i = [rest[0]], rest[1]
            w = re.match(r"\s*else\b", s[i:])
            if w:
                die("`else` in vbi_event_enable: the model has no such branch")
            out.append(("if", re.sub(r"\s+", " ", cond).strip(), body))
        else:
            st, i = parse_stmts_one(s, i)
            out.append(st)


def parse_stmts_one(s, i):
    m = re.match(r"if\s*\(", s[i:])
    if m:
        j = i + m.end() - 1
        k = balanced(s, j, "(", ")")
        cond = s[j + 1:k - 1]
        while s[k].isspace():
            k += 1
        if s[k] == "{":
            e = balanced(s, k, "{", "}")
            return ("if", re.sub(r"\s+", " ", cond).strip(), parse_stmts(s[k + 1:e - 1])), e
        st, e = parse_stmts_one(s, k)
        return ("if", re.sub(r"\s+", " ", cond).strip(), [st]), e
    e = s.find(";", i)
    if e < 0:
        die("statement without `;`: %r" % s[i:i + 60])
    return ("s", re.sub(r"\s+", "", s[i:e])), e + 1


def main():
    ev = strip_comments(open(os.path.join(REPO, "src", "event.h")).read())
    consts = {}
    for m in re.finditer(r"#\s*define\s+(_?VBI_EVENT_\w+)\s+(0x[0-9a-fA-F]+|\d+)\s*$", ev, flags=re.M):
        consts[m.group(1)] = int(m.group(2), 0)

    def ev_expr(e):
        v = 0
        for t in re.split(r"[|\s()]+", e):
            if not t:
                continue
            if t not in consts:
                die("cannot evaluate %r" % e)
            v |= consts[t]
        return v

    vc = strip_comments(open(os.path.join(REPO, "src", "vbi.c")).read())
    m = re.search(r"vbi_event_enable\s*\(vbi_decoder \*vbi, int mask\)\s*\{(.*?)\n\}", vc, flags=re.S)
    if not m:
        die("vbi_event_enable not found in src/vbi.c")
    stmts = parse_stmts(m.group(1))
    if not stmts or stmts[0] != ("s", "intactivate"):
        die("vbi_event_enable no longer starts with `int activate;`")
    if len(stmts) < 3 or stmts[1] != ("s", "activate=mask&~vbi->event_mask"):
        die("`activate = mask & ~vbi->event_mask` is not the first statement")
    if stmts[-1] != ("s", "vbi->event_mask=mask"):
        die("vbi_event_enable no longer ends with `vbi->event_mask = mask`")

    def simple(t):
        """statement text (white space removed) -> Lean constructor"""
        table = [
            (r"vbi_teletext_channel_switched\(vbi\)$", lambda g: ".ttxSwitched"),
            (r"vbi_caption_channel_switched\(vbi\)$", lambda g: ".ccSwitched"),
            (r"memset\(&vbi->network,0,sizeof\(vbi->network\)\)$", lambda g: ".clearNetwork"),
            (r"CLEAR\(vbi->cni_cycle\)$", lambda g: ".clearCniCycle"),
            (r"CLEAR\(vbi->cni_announced\)$", lambda g: ".clearCniAnnounced"),
            (r"vbi_trigger_flush\(vbi\)$", lambda g: ".triggerFlush"),
            (r"vbi_reset_prog_info\(&vbi->prog_info\[(\d+)\]\)$", lambda g: ".resetProgInfo %d" % int(g[0])),
            (r"vbi->prog_info\[(\d+)\]\.future=(TRUE|FALSE|0|1)$",
             lambda g: ".setFuture %d %s" % (int(g[0]), "true" if g[1] in ("TRUE", "1") else "false")),
            (r"vbi->aspect_source=(\d+)$", lambda g: ".setAspectSource %d" % int(g[0])),
            (r"CLEAR\(vbi->vps_pid\)$", lambda g: ".clearVpsPid"),
        ]
        for rx, f in table:
            mm = re.match(rx, t)
            if mm:
                r = f(mm.groups())
                if r.startswith((".resetProgInfo", ".setFuture")) and int(r.split()[1]) > 1:
                    die("prog_info index out of range in %r" % t)
                return r
        die("statement %r of vbi_event_enable is unknown to the model" % t)

    branches = []
    for st in stmts[2:-1]:
        if st[0] != "if":
            die("unconditional statement %r in vbi_event_enable" % (st[1],))
        mm = re.match(r"activate\s*&\s*(\(?[A-Z_|\s]+\)?)$", st[1])
        if not mm:
            die("branch condition %r is not `activate & <events>`" % st[1])
        act = ev_expr(mm.group(1))
        body, guard = st[2], 0
        if len(body) == 1 and body[0][0] == "if":
            g = re.match(r"!\s*\(\s*vbi->event_mask\s*&\s*(\(?[A-Z_|\s]+\)?)\s*\)$", body[0][1])
            if not g:
                die("inner condition %r is not `!(vbi->event_mask & <events>)`" % body[0][1])
            guard = ev_expr(g.group(1))
            if guard == 0:
                die("empty inner guard")
            body = body[0][2]
        body = [b for b in body if b != ("s", "")]          # empty statement `;`
        if any(b[0] != "s" for b in body):
            die("nested `if` inside a branch body: %r" % (body,))
        branches.append((act, guard, [simple(b[1]) for b in body], st[1]))

    out = ["-- GENERATED by translate/gen_evenable.py from src/vbi.c (vbi_event_enable) and src/event.h - do not edit",
           "namespace Zvbi.Gen.EvEnable", "",
           "/-- the statements that occur in the branches of vbi_event_enable -/",
           "inductive Stmt",
           "  | ttxSwitched                      -- vbi_teletext_channel_switched (vbi)",
           "  | ccSwitched                       -- vbi_caption_channel_switched (vbi)",
           "  | clearNetwork                     -- memset (&vbi->network, 0, sizeof (vbi->network))",
           "  | clearCniCycle                    -- CLEAR (vbi->cni_cycle)",
           "  | clearCniAnnounced                -- CLEAR (vbi->cni_announced)",
           "  | triggerFlush                     -- vbi_trigger_flush (vbi)",
           "  | resetProgInfo (i : Nat)          -- vbi_reset_prog_info (&vbi->prog_info[i])",
           "  | setFuture (i : Nat) (v : Bool)   -- vbi->prog_info[i].future = v",
           "  | setAspectSource (v : Nat)        -- vbi->aspect_source = v",
           "  | clearVpsPid                      -- CLEAR (vbi->vps_pid)",
           "deriving Repr, DecidableEq", "",
           "/-- `if (activate & act) [if (!(vbi->event_mask & guard))] { body }`; `guard = 0`: no inner condition -/",
           "structure Branch where",
           "  act : Nat",
           "  guard : Nat",
           "  body : List Stmt",
           "deriving Repr, DecidableEq", "",
           "/-- the branches of vbi_event_enable between `activate = mask & ~vbi->event_mask` and",
           "`vbi->event_mask = mask`, in source order -/",
           "def program : List Branch := ["]
    for k, (act, guard, body, cond) in enumerate(branches):
        out.append("  -- if (%s)" % cond)
        out.append("  { act := 0x%x, guard := 0x%x, body := [%s] }%s" % (act, guard, ", ".join(body), "," if k + 1 < len(branches) else ""))
    out += ["]", "", "end Zvbi.Gen.EvEnable"]
    text = "\n".join(out) + "\n"
    if not os.path.exists(OUT) or open(OUT).read() != text:
        open(OUT, "w").write(text)
        print("gen_evenable: wrote", os.path.relpath(OUT))


if __name__ == "__main__":
    main()
