#!/usr/bin/env python3
"""Translator for the raw decoder / bit slicer component (C05, also usable by C04).

`_vbi_service_table` (src/raw_decoder.c), the pixel format enum, the size of
`vbi_sliced.data` and the pattern/job limits are taken from the *current* source:
the text of the table initialiser is cut out of raw_decoder.c and compiled into a
small probe against /repo's headers, so every enumerator / constant expression is
evaluated by the C compiler, not by this script.  Output:
`lean/ZvbiModel/Generated/ServiceTable.lean` (written only when it changed).

The generated file also records which arithmetic `vbi3_bit_slicer_set_params` and
`vbi_bit_slicer_init` use for the CRI search limit (`slicerVariant`): `orig` (limit
leaves room for `data_samples` only) or `tight` (limit additionally reduced by the
look-ahead of the payload loop, fixes/slicer-lookahead.diff).  This is recognised
from the source text and is then *validated* numerically by the correspondence
check (op `params` / `lparams` compare cri_samples for thousands of configurations).
"""
import os, re, subprocess, sys, tempfile

REPO = os.environ.get("ZVBI_REPO", "/repo")
HERE = os.path.dirname(os.path.abspath(__file__))
OUT = os.path.join(HERE, "..", "lean", "ZvbiModel", "Generated", "ServiceTable.lean")

PIXFMTS = ["YUV420", "YUYV", "YVYU", "UYVY", "VYUY", "PAL8",
           "RGBA32_LE", "RGBA32_BE", "BGRA32_LE", "BGRA32_BE", "RGB24", "BGR24",
           "RGB16_LE", "RGB16_BE", "BGR16_LE", "BGR16_BE",
           "RGBA15_LE", "RGBA15_BE", "BGRA15_LE", "BGRA15_BE",
           "ARGB15_LE", "ARGB15_BE", "ABGR15_LE", "ABGR15_BE"]


def cut_table(src):
    m = re.search(r"_vbi_service_table\s*\[\]\s*=\s*\{", src)
    if not m:
        raise SystemExit("gen_slicer: _vbi_service_table not found")
    i = m.end() - 1
    depth, j = 0, i
    while True:
        c = src[j]
        if c == "{":
            depth += 1
        elif c == "}":
            depth -= 1
            if depth == 0:
                break
        j += 1
    return src[i:j + 1]


def main():
    rd = open(os.path.join(REPO, "src", "raw_decoder.c")).read()
    bs = open(os.path.join(REPO, "src", "bit_slicer.c")).read()
    dc = open(os.path.join(REPO, "src", "decoder.c")).read()
    init = cut_table(rd)
    probe = r'''
#include <stdio.h>
#include "src/misc.h"
#include "src/decoder.h"
#include "src/raw_decoder.h"
#include "src/sliced.h"
static const _vbi_service_par T[] = %s;
int main (void)
{
	const _vbi_service_par *p;
	for (p = T; p->id; ++p)
		printf ("row %%u|%%s|%%u|%%u|%%u|%%u|%%u|%%u|%%u|%%u|%%u|%%u|%%u|%%u|%%u|%%u|%%u\n",
			(unsigned) p->id, p->label, (unsigned) p->videostd_set,
			p->first[0], p->first[1], p->last[0], p->last[1], p->offset,
			p->cri_rate, p->bit_rate, p->cri_frc, p->cri_frc_mask,
			p->cri_bits, p->frc_bits, p->payload, (unsigned) p->modulation,
			(unsigned) p->flags);
	printf ("const slicedDataSize %%u\n", (unsigned) sizeof (((vbi_sliced *) 0)->data));
	printf ("const slicedSize %%u\n", (unsigned) sizeof (vbi_sliced));
	printf ("const maxWays %%u\n", (unsigned) _VBI3_RAW_DECODER_MAX_WAYS);
	printf ("const maxJobs %%u\n", (unsigned) _VBI3_RAW_DECODER_MAX_JOBS);
	printf ("const spLineNum %%u\n", (unsigned) _VBI_SP_LINE_NUM);
	printf ("const spFieldNum %%u\n", (unsigned) _VBI_SP_FIELD_NUM);
	printf ("const videostd525 %%u\n", (unsigned) VBI_VIDEOSTD_SET_525_60);
	printf ("const videostd625 %%u\n", (unsigned) VBI_VIDEOSTD_SET_625_50);
	printf ("const slicedVbi525 %%u\n", (unsigned) VBI_SLICED_VBI_525);
	printf ("const slicedVbi625 %%u\n", (unsigned) VBI_SLICED_VBI_625);
	printf ("const slicedWss625 %%u\n", (unsigned) VBI_SLICED_WSS_625);
%s
	return 0;
}
''' % (init, "\n".join('\tprintf ("pixfmt %s %%u %%u\\n", (unsigned) VBI_PIXFMT_%s, (unsigned) VBI_PIXFMT_BPP (VBI_PIXFMT_%s));'
                       % (n, n, n) for n in PIXFMTS))
    with tempfile.TemporaryDirectory(prefix="gen_slicer") as td:
        src = os.path.join(td, "probe.c")
        exe = os.path.join(td, "probe")
        open(src, "w").write(probe)
        p = subprocess.run(["gcc", "-std=gnu99", "-D_GNU_SOURCE", "-DHAVE_CONFIG_H", "-w",
                            "-I" + REPO, "-I" + os.path.join(REPO, "src"), src, "-o", exe],
                           stdout=subprocess.PIPE, stderr=subprocess.STDOUT)
        if p.returncode != 0:
            raise SystemExit("gen_slicer: probe does not compile:\n" + p.stdout.decode()[-2000:])
        out = subprocess.run([exe], stdout=subprocess.PIPE).stdout.decode()
    rows, consts, fmts = [], {}, []
    for line in out.split("\n"):
        if line.startswith("row "):
            f = line[4:].split("|")
            rows.append(f)
        elif line.startswith("const "):
            _, k, v = line.split()
            consts[k] = int(v)
        elif line.startswith("pixfmt "):
            _, n, v, b = line.split()
            fmts.append((n, int(v), int(b)))
    if not rows:
        raise SystemExit("gen_slicer: empty service table")
    # which CRI-limit arithmetic is in the tree (validated numerically by the correspondence check)
    tight3 = re.search(r"\blook_ahead\b", bs) is not None
    tightL = re.search(r"\blook_ahead\b", dc) is not None
    L = []
    L.append("-- GENERATED by translate/gen_slicer.py from src/raw_decoder.c, src/decoder.h, src/sliced.h,")
    L.append("-- src/raw_decoder.h, src/bit_slicer.c, src/decoder.c - do not edit")
    L.append("namespace Zvbi.Generated.ServiceTable")
    L.append("")
    L.append("/-- one row of `_vbi_service_table` (src/raw_decoder.c) -/")
    L.append("structure Row where")
    for fld in ["id", "videostd", "first0", "first1", "last0", "last1", "offsetNs", "criRate", "bitRate",
                "criFrc", "criFrcMask", "criBits", "frcBits", "payload", "modulation", "flags"]:
        L.append("  %s : Nat" % fld)
    L.append("  label : String")
    L.append("  deriving Repr, DecidableEq")
    L.append("")
    L.append("def serviceTable : List Row := [")
    for i, f in enumerate(rows):
        (rid, label, vs, f0, f1, l0, l1, off, cr, br, cf, cm, cb, fb, pl, mod, fl) = f
        L.append("  { id := 0x%x, videostd := %s, first0 := %s, first1 := %s, last0 := %s, last1 := %s, offsetNs := %s,"
                 % (int(rid), vs, f0, f1, l0, l1, off))
        L.append("    criRate := %s, bitRate := %s, criFrc := 0x%x, criFrcMask := 0x%x, criBits := %s, frcBits := %s,"
                 % (cr, br, int(cf), int(cm), cb, fb))
        L.append("    payload := %s, modulation := %s, flags := %s, label := \"%s\" }%s"
                 % (pl, mod, fl, label.replace('"', "'"), "," if i + 1 < len(rows) else ""))
    L.append("]")
    L.append("")
    for k in ["slicedDataSize", "slicedSize", "maxWays", "maxJobs", "spLineNum", "spFieldNum", "videostd525", "videostd625",
              "slicedVbi525", "slicedVbi625", "slicedWss625"]:
        L.append("def %s : Nat := %d" % (k, consts[k]))
    L.append("")
    L.append("/-- (name, enum value, VBI_PIXFMT_BPP) of every `vbi_pixfmt` enumerator of decoder.h -/")
    L.append("def pixfmts : List (String × Nat × Nat) := [")
    L.append(",\n".join('  ("%s", %d, %d)' % t for t in fmts))
    L.append("]")
    L.append("")
    L.append("/-- `true` iff vbi3_bit_slicer_set_params reduces the CRI search limit by the payload look-ahead")
    L.append("    (fixes/slicer-lookahead.diff applied); recognised from the source text, validated by the")
    L.append("    `params` correspondence ops -/")
    L.append("def slicerTight : Bool := %s" % ("true" if tight3 else "false"))
    L.append("/-- same for the legacy vbi_bit_slicer_init of decoder.c -/")
    L.append("def legacyTight : Bool := %s" % ("true" if tightL else "false"))
    L.append("")
    L.append("end Zvbi.Generated.ServiceTable")
    text = "\n".join(L) + "\n"
    old = open(OUT).read() if os.path.exists(OUT) else None
    if old != text:
        os.makedirs(os.path.dirname(OUT), exist_ok=True)
        open(OUT, "w").write(text)
        print("gen_slicer: wrote ServiceTable.lean (%d rows)" % len(rows))
    else:
        print("gen_slicer: unchanged (%d rows)" % len(rows))


if __name__ == "__main__":
    main()
