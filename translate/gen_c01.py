#!/usr/bin/env python3
"""Translator for the Level 2.5 / TOP obligations of C01 -> lean/ZvbiModel/Generated/C01Facts.lean.

Regenerated from the CURRENT source on every run (text of the functions + a C probe compiled against the headers):

  teletext.c add_modulo()            the return expression, translated operator by operator to 32-bit two's complement
                                     (`&` -> &&&, `%` -> BitVec.srem = C's truncating remainder, ...)
  teletext.c resolve_obj_address()   for every `return 0` path whether `cache_page_unref (vtp)` precedes it; the
                                     `pointer > N` guard; the pointer-table index expression
  teletext.c enhance(), default_object_invocation()
                                     whether the object page is released after the recursive call, on both outcomes
  packet.c   vbi_convert_page()      what it reads from the source page: the head memcpy, the row loops of every
                                     target function, the X/26 triplet copy of the (G)POP case and its guard; whether
                                     the cached source is released after a successful _vbi_cache_put_page
  cache.c    cache_page_size()       the switch, as a Lean function of (function, x26_designations, x28_designations);
                                     member sizes / offsets from the probe; the same function text compiled and run
                                     on a grid (`probeRows`) so that the translation is cross-checked in Lean
The theorems of Props/C01Enh.lean are proved about exactly these definitions: a change of one of these facts changes
the generated file and the proofs stop building (seeded C01-d, C01-e, C01-f)."""
import os, re, subprocess, sys, tempfile

REPO = os.environ.get("ZVBI_REPO", "/repo")
HERE = os.path.dirname(os.path.abspath(__file__))
OUT = os.path.join(HERE, "..", "lean", "ZvbiModel", "Generated", "C01Facts.lean")


def die(msg):
    sys.exit("gen_c01: " + msg)


def strip_comments(s):
    return re.sub(r"/\*.*?\*/", " ", s, flags=re.S)


def function_body(src, name):
    """text between the braces of the definition of `name` (first `name (...) {` at top level)"""
    for m in re.finditer(r"\b" + re.escape(name) + r"\s*\(", src):
        # skip prototypes / calls: the matching ')' must be followed by '{'
        i, depth = m.end(), 1
        while i < len(src) and depth:
            depth += {"(": 1, ")": -1}.get(src[i], 0)
            i += 1
        j = i
        while j < len(src) and src[j] in " \t\r\n":
            j += 1
        if j < len(src) and src[j] == "{" and (m.start() == 0 or src[m.start() - 1] in "\n \t"):
            k, depth = j + 1, 1
            while k < len(src) and depth:
                depth += {"{": 1, "}": -1}.get(src[k], 0)
                k += 1
            # a definition starts at the beginning of a line
            ls = src.rfind("\n", 0, m.start()) + 1
            if src[ls:m.start()].strip() == "":
                return src[j + 1:k - 1], src[ls:k]
    die("definition of %s not found" % name)


# ------------------------------------------------------------------------------------------------
# C integer expression -> Lean BitVec 32 term
def c_expr_to_lean(expr, idents):
    toks = re.findall(r"0[xX][0-9a-fA-F]+|\d+|[A-Za-z_]\w*|[()+\-*/%&|^]|<<|>>", expr)
    if "".join(toks) != re.sub(r"\s+", "", expr):
        die("unexpected token in expression: " + expr)
    pos = [0]

    def peek():
        return toks[pos[0]] if pos[0] < len(toks) else None

    def take():
        pos[0] += 1
        return toks[pos[0] - 1]

    def atom():
        t = take()
        if t == "(":
            e = band()
            if take() != ")":
                die("unbalanced expression: " + expr)
            return "(" + e + ")"
        if t == "-":
            return "(-" + atom() + ")"
        if re.match(r"\d", t):
            return "%d#32" % int(t, 0)
        if t in idents:
            return t
        die("unknown identifier %s in: %s" % (t, expr))

    def mul():
        e = atom()
        while peek() in ("*", "/", "%"):
            op = take()
            r = atom()
            e = {"*": "(%s * %s)", "/": "(BitVec.sdiv %s %s)", "%": "(BitVec.srem %s %s)"}[op] % (e, r)
        return e

    def add():
        e = mul()
        while peek() in ("+", "-"):
            op = take()
            e = "(%s %s %s)" % (e, op, mul())
        return e

    def band():
        e = add()
        while peek() == "&":
            take()
            e = "(%s &&& %s)" % (e, add())
        if peek() in ("|", "^", "<<", ">>"):
            die("operator %s not supported in: %s" % (peek(), expr))
        return e

    e = band()
    if pos[0] != len(toks):
        die("trailing tokens in: " + expr)
    return e


def const_product(text):
    """value of an expression like `16 * 13 * sizeof (struct ttx_triplet)` with sizeof replaced beforehand"""
    if not re.fullmatch(r"[\d\s*+()xXa-fA-F]+", text):
        die("not a constant product: " + text)
    return int(eval(text, {"__builtins__": {}}))


# ------------------------------------------------------------------------------------------------
tel = strip_comments(open(os.path.join(REPO, "src", "teletext.c")).read())
pkt = strip_comments(open(os.path.join(REPO, "src", "packet.c")).read())
cac = strip_comments(open(os.path.join(REPO, "src", "cache.c")).read())

# --- add_modulo ------------------------------------------------------------------------------------
body, _ = function_body(tel, "add_modulo")
m = re.fullmatch(r"\s*return\s+(.*?);\s*", body, flags=re.S)
if not m:
    die("add_modulo is not a single return statement")
addmod_c = re.sub(r"\s+", " ", m.group(1)).strip()
addmod_lean = c_expr_to_lean(addmod_c, {"pgno", "incr"})

# the two scans of top_navigation_bar use it with +1 / -1 and hand the result to cache_network_page_stat
nav, _ = function_body(tel, "top_navigation_bar")
nav1 = re.sub(r"\s+", " ", nav)
scan_down = bool(re.search(r"for \(i = vtp->pgno; i != pgno1; i = add_modulo \(i, -1\)\)", nav1))
scan_up = bool(re.search(r"for \(i = pgno1, got = FALSE; i != vtp->pgno; i = add_modulo \(i, 1\)\)", nav1))
pgno1 = bool(re.search(r"pgno1 = add_modulo \(vtp->pgno, 1\);", nav1))

# --- resolve_obj_address ---------------------------------------------------------------------------
rbody, _ = function_body(tel, "resolve_obj_address")
segs = rbody.split("return 0;")
exits = {}
keys = {"page not cached": "notCached", "no g/pop page or hamming error": "convertFail",
        "source page wrong function": "wrongFunction", "triplet pointer out of bounds": "pointerOutOfBounds",
        "no object definition": "noObjectDefinition"}
for seg in segs[:-1]:
    last_if = max(seg.rfind("if ("), seg.rfind("if("))
    blk = seg[last_if:] if last_if >= 0 else seg
    key = None
    for msg, k in keys.items():
        if msg in blk:
            key = k
    if key is None:
        die("resolve_obj_address: unrecognised `return 0` path: " + re.sub(r"\s+", " ", blk)[-200:])
    if key in exits:
        die("resolve_obj_address: path %s occurs twice" % key)
    exits[key] = bool(re.search(r"cache_page_unref\s*\(\s*vtp\s*\)", blk))
for k in keys.values():
    if k not in exits:
        die("resolve_obj_address: path %s not found" % k)
g = re.search(r"if\s*\(\s*pointer\s*(>=|>)\s*(\d+)\s*\)", rbody)
if not g:
    die("resolve_obj_address: pointer guard not found")
ptr_limit = int(g.group(2)) - (1 if g.group(1) == ">=" else 0)      # largest admitted pointer
ix = re.search(r"pointer\s*=\s*vtp->data\.pop\.pointer\s*\[\s*packet\s*\*\s*(\d+)\s*\+\s*i\s*\*\s*(\d+)\s*\+\s*"
               r"\(\(address\s*>>\s*4\)\s*&\s*1\)\s*\]", rbody)
pk = re.search(r"packet\s*=\s*\(\(address\s*>>\s*7\)\s*&\s*(\d+)\)", rbody)
ii = re.search(r"i\s*=\s*\(\(address\s*>>\s*5\)\s*&\s*(\d+)\)\s*\*\s*(\d+)\s*\+\s*type", rbody)
rem = re.search(r"\*remaining\s*=\s*elements\s*\(\s*vtp->data\.pop\.triplet\s*\)\s*-\s*\(\s*pointer\s*\+\s*1\s*\)", rbody)
trip = re.search(r"trip\s*=\s*vtp->data\.pop\.triplet\s*\+\s*pointer\s*;", rbody)
ret1 = re.search(r"return\s+trip\s*\+\s*1\s*;", rbody)
if not (ix and pk and ii and rem and trip and ret1):
    die("resolve_obj_address: pointer table index / remaining expression not recognised")
# success path hands the reference to the caller
hands_over = bool(re.search(r"\*vtpp\s*=\s*vtp\s*;\s*return\s+trip\s*\+\s*1\s*;", rbody))
conv_cached = bool(re.search(r"vbi_convert_page\s*\(\s*vbi\s*,\s*vtp\s*,\s*TRUE\s*,\s*function\s*\)", rbody))

# --- enhance: object invocation case, default_object_invocation -------------------------------------
ebody, _ = function_body(tel, "enhance")
m = re.search(r"case\s+0x11\s*\.\.\.\s*0x13\s*:(.*?)case\s+0x14\s*:", ebody, flags=re.S)
if not m:
    die("enhance: object invocation case not found")
inv = m.group(1)
f = re.search(r"if\s*\(\s*!\s*enhance\s*\((.*?)\)\s*\)\s*\{(.*?)return\s+FALSE\s*;\s*\}(.*?)break\s*;", inv, flags=re.S)
if not f:
    die("enhance: recursive call not recognised")
enh_unref_fail = bool(re.search(r"cache_page_unref\s*\(\s*trip_cp\s*\)", f.group(2)))
enh_unref_done = bool(re.search(r"cache_page_unref\s*\(\s*trip_cp\s*\)", f.group(3)))
enh_null_init = bool(re.search(r"cache_page\s*\*\s*trip_cp\s*=\s*NULL\s*;", inv))
enh_fail_on_null = bool(re.search(r"if\s*\(\s*!\s*trip\s*\)\s*return\s+FALSE\s*;", inv))
dbody, _ = function_body(tel, "default_object_invocation")
f = re.search(r"if\s*\(\s*!\s*enhance\s*\((.*?)\)\s*\)\s*\{(.*?)return\s+FALSE\s*;\s*\}(.*?)\}\s*return\s+TRUE\s*;", dbody, flags=re.S)
if not f:
    die("default_object_invocation: recursive call not recognised")
def_unref_fail = bool(re.search(r"cache_page_unref\s*\(\s*trip_cp\s*\)", f.group(2)))
def_unref_done = bool(re.search(r"cache_page_unref\s*\(\s*trip_cp\s*\)", f.group(3)))
def_fail_on_null = bool(re.search(r"if\s*\(\s*!\s*trip\s*\)\s*return\s+FALSE\s*;", dbody))

# --- vbi_format_vt_page: which members of the (truncated) page it reads -------------------------------
fbody, _ = function_body(tel, "vbi_format_vt_page")
f1 = re.sub(r"\s+", " ", fbody)
fm = re.search(r"if \(vtp->x28_designations & (0x[0-9a-fA-F]+|\d+)\) ext = &vtp->data\.ext_lop\.ext; else ext = &mag->extension;", f1)
em2 = re.search(r"if \(vtp->x26_designations & (0x[0-9a-fA-F]+|\d+)\) \{ .*?enhance ?\(vbi, mag, ext, pg, vtp, LOCAL_ENHANCEMENT_DATA, "
                r"vtp->data\.enh_lop\.enh, elements ?\(vtp->data\.enh_lop\.enh\),", f1)
fn_gate = re.search(r"if \(vtp->function != PAGE_FUNCTION_LOP && vtp->function != PAGE_FUNCTION_EACEM_TRIGGER\) return FALSE;", f1)
lo = re.search(r"if \(!\(vtp->x26_designations & (0x[0-9a-fA-F]+|\d+)\)\) \{[^}]*return FALSE; \} trip = vtp->data\.enh_lop\.enh \+ designation \* 13 \+ triplet;",
               re.sub(r"\s+", " ", inv))
if not (fm and em2 and fn_gate and lo):
    die("vbi_format_vt_page / local object: reads of ext_lop.ext / enh_lop.enh not recognised")

# --- vbi_convert_page ------------------------------------------------------------------------------
cbody, _ = function_body(pkt, "vbi_convert_page")
c1 = re.sub(r"\s+", " ", cbody)
hm = re.search(r"memcpy ?\( ?&page, vtp, sizeof ?\(\*vtp\) ?- ?sizeof ?\(vtp->data\) ?\+ ?sizeof ?\(vtp->data\.(\w+)\) ?\);", c1)
if not hm:
    die("vbi_convert_page: head memcpy not recognised")
head_member = hm.group(1)
cases = {}
for m in re.finditer(r"((?:case PAGE_FUNCTION_\w+: ?)+)(.*?)(?=case PAGE_FUNCTION_|default:)", c1):
    labels = re.findall(r"PAGE_FUNCTION_(\w+)", m.group(1))
    for l in labels:
        cases[l] = m.group(2)
for need in ("POP", "GPOP", "DRCS", "GDRCS", "AIT", "MPT", "MPT_EX", "LOP"):
    if need not in cases:
        die("vbi_convert_page: case %s not found" % need)


def row_loop(text, fn):
    m = re.search(r"for \(i = (\d+); i <= (\d+); i\+\+\) if \(vtp->lop_packets & \(1 << i\)\) if \(!%s ?\([^;]*vtp->data\.unknown\.raw\[i\]" % fn, text)
    if not m:
        die("vbi_convert_page: row loop of %s not recognised" % fn)
    return int(m.group(1)), int(m.group(2))


pop_rows = row_loop(cases["POP"], "parse_pop")
ait_rows = row_loop(cases["AIT"], "parse_ait")
mpt_rows = row_loop(cases["MPT"], "parse_mpt")
mptex_rows = row_loop(cases["MPT_EX"], "parse_mpt_ex")
if cases["POP"] != cases["GPOP"] or cases["DRCS"] != cases["GDRCS"]:
    die("vbi_convert_page: POP/GPOP or DRCS/GDRCS no longer share their case")
em = re.search(r"memcpy ?\( ?&page\.data\.pop\.triplet\[([^\]]*)\], vtp->data\.enh_lop\.enh, ([^;]*?)\);", cases["POP"])
if not em:
    die("vbi_convert_page: X/26 triplet copy of the POP case not recognised")
enh_dst_index = em.group(1)
enh_bytes_expr = em.group(2)
guarded = re.search(r"if \(vtp->x26_designations\) \{? ?memcpy ?\( ?&page\.data\.pop\.triplet\[", cases["POP"]) is not None
dm = re.search(r"memmove ?\( ?&page\.data\.drcs\.lop, &vtp->data\.unknown, sizeof ?\(page\.data\.drcs\.lop\)\);", cases["DRCS"])
dc = re.search(r"convert_drcs ?\(&page, vtp->data\.unknown\.raw\[(\d+)\]\)", cases["DRCS"])
if not (dm and dc):
    die("vbi_convert_page: DRCS case not recognised")
drcs_first_row = int(dc.group(1))
rel = re.search(r"new_vtp = _vbi_cache_put_page ?\(vbi->ca, vbi->cn, &page\); if \(NULL != new_vtp\) cache_page_unref ?\(vtp\); return new_vtp;", c1)
conv_releases_old = rel is not None
# convert_drcs: rows it looks at through `raw` (24 rows of 40 bytes from raw[1])
dbody2, _ = function_body(pkt, "convert_drcs")
d1 = re.sub(r"\s+", " ", dbody2)
dr = re.search(r"for \(i = 0; i < (\d+); p \+= 40, i\+\+\)", d1)
if not dr:
    die("convert_drcs: row loop not recognised")
drcs_rows = int(dr.group(1))

# header reload in vbi_decode_teletext: bytes copied out of the cached page
tbody, _ = function_body(pkt, "vbi_decode_teletext")
t1 = re.sub(r"\s+", " ", tbody)
reload_ok = re.search(r"memcpy ?\(&cvtp->data, &vtp->data, cache_page_size ?\(vtp\) - sizeof ?\(\*vtp\) \+ sizeof ?\(vtp->data\)\);", t1) is not None

# --- vbi_decode_teletext case 26: the X/26 sequence test and the stores into enh_lop.enh[] -----------------
cm = re.search(r"case 26: \{(.*?)\} case 27:", t1)
if not cm:
    die("vbi_decode_teletext: case 26 not found")
c26 = cm.group(1)
st = re.search(r"if \(rvtp->num_triplets >= (\d+) \* (\d+) \|\| rvtp->num_triplets (!=|>=|<=|>|<|==) designation \* (\d+)\) \{ "
               r"rvtp->num_triplets = (-?\d+); return FALSE; \}(.*?)for \(p\+\+, i = 0; i < (\d+); p \+= 3, i\+\+\) \{(.*?)\} "
               r"cvtp->x26_designations \|= 1 << designation;", c26)
if not st:
    die("vbi_decode_teletext: X/26 sequence test / store loop not recognised")
x26_limit = int(st.group(1)) * int(st.group(2))
x26_op, x26_stride, x26_sentinel, between, x26_per_packet, loop_body = st.group(3), int(st.group(4)), int(st.group(5)), st.group(6).strip(), int(st.group(7)), st.group(8)
gap = re.fullmatch(r"while \(rvtp->num_triplets < designation \* (\d+)\) \{ memset ?\(&cvtp->data\.enh_lop\.enh\[rvtp->num_triplets\+\+\], "
                   r"[^;]*\); \}", between)
if between and not gap:
    die("vbi_decode_teletext: unrecognised code between the X/26 sequence test and the store loop: " + between[:160])
x26_gap_fill = bool(gap)
if gap and int(gap.group(1)) != x26_stride:
    die("vbi_decode_teletext: gap fill stride differs from the sequence test")
if not re.search(r"if \(t < 0\) break;.*cvtp->data\.enh_lop\.enh\[rvtp->num_triplets\+\+\] = triplet;", loop_body):
    die("vbi_decode_teletext: X/26 store statement not recognised")
dg = re.search(r"if \(\(designation = vbi_unham8 ?\(\*p\)\) < 0\) return FALSE; if \(rvtp->num_triplets >=", c26)
if not dg:
    die("vbi_decode_teletext: X/26 designation decode not recognised")
# every other assignment to num_triplets in the library: only the reset at a page header
nt_sites = re.findall(r"num_triplets\s*(=[^=][^;]*|\+\+|--|[-+*/]=[^;]*);", pkt)
nt_sites = [re.sub(r"\s+", " ", x).strip() for x in nt_sites]
expected_sites = sorted(["= 0", "= %d" % x26_sentinel, "++ = triplet"] if False else [])
nt_assign = sorted(set(re.sub(r"\s+", " ", m.group(0)) for m in re.finditer(r"num_triplets\s*=[^=][^;]*;", pkt)))
if nt_assign != sorted(["num_triplets = 0;", "num_triplets = %d;" % x26_sentinel]):
    die("packet.c: unexpected assignments to num_triplets: %r" % nt_assign)
hdr_reset = re.search(r"rvtp->lop_packets = 0; rvtp->num_triplets = 0; return TRUE; \} case 1 \.\.\. 25:", t1) is not None

# --- teletext.c top_index: the line counter of one index sub-page ------------------------------------------
ibody, _ = function_body(tel, "top_index")
i1 = re.sub(r"\s+", " ", ibody)
decl = [d for d in re.findall(r"((?:unsigned |signed |long |short )*(?:int|unsigned|long|short|char|size_t)\b[^;(){}]*;)", i1) if re.search(r"\blines\b", d)]
if len(decl) != 1:
    die("top_index: declaration of `lines` not found")
lines_signed = not re.match(r"(unsigned|size_t)", decl[0].strip())
li = re.search(r"acp = &pg->text\[(\d+) \* EXT_COLUMNS\]; lines = (\d+);", i1)
lp = re.search(r"if \(subno > 0\) \{ if \(lines-- == 0\) \{ subno--; lines = (\d+); \} cache_page_unref ?\(vtp\); vtp = NULL; continue; \} "
               r"else if \(lines-- <= 0\) \{ cache_page_unref ?\(vtp\); vtp = NULL; continue; \}", i1)
adv = len(re.findall(r"acp \+= EXT_COLUMNS;", i1))
wl = re.search(r"while \(\(ait = next_ait ?\(vbi, xpgno, xsubno, &vtp\)\)\) \{", i1)
if not (li and lp and adv == 1 and wl):
    die("top_index: title loop not recognised")
if int(lp.group(1)) != int(li.group(2)):
    die("top_index: the two initial values of `lines` differ")
jm = re.search(r"for \(j = 0; j < (\d+); j\+\+\) \{ n = .*?acp\[j \+ (\d+)\]\.unicode = n;", i1)
cols = ([int(jm.group(2)) + int(jm.group(1)) - 1] if jm else []) + [int(x) for x in re.findall(r"k <= (\d+); k\+\+\) acp\[k\]", i1)]
rows_def = re.search(r"#define\s+ROWS\s+(\d+)", tel)
ext_def = re.search(r"#define\s+EXT_COLUMNS\s+(\d+)", tel)
if not (rows_def and ext_def and cols):
    die("teletext.c: ROWS / EXT_COLUMNS / index cell columns not found")

# --- cache_page_size -------------------------------------------------------------------------------
sbody, sfull = function_body(cac, "cache_page_size")
s1 = re.sub(r"\s+", " ", sbody)
hs = re.search(r"header_size = sizeof ?\(\*cp\) - sizeof ?\(cp->data\);", s1)
sw = re.search(r"switch \(cp->function\) \{(.*)\}", s1)
if not (hs and sw):
    die("cache_page_size: header_size / switch not recognised")
groups = []
members = set()
for m in re.finditer(r"((?:case PAGE_FUNCTION_\w+: ?)+|default: ?)(.*?)(?=case PAGE_FUNCTION_|default:|$)", sw.group(1)):
    labels = re.findall(r"PAGE_FUNCTION_(\w+)", m.group(1)) or ["default"]
    stmts = m.group(2).strip()
    arms = []
    rest = stmts
    while rest:
        a = re.match(r"(?:else )?if \((cp->x28_designations & (0x[0-9a-fA-F]+|\d+)|cp->x26_designations)\) return (.*?); ?", rest)
        b = re.match(r"(?:else )?return (.*?); ?", rest)
        if a:
            cond = ("x28", int(a.group(2), 0)) if a.group(2) else ("x26", None)
            arms.append((cond, a.group(3)))
            rest = rest[a.end():]
        elif b:
            arms.append((None, b.group(1)))
            rest = rest[b.end():]
        else:
            die("cache_page_size: statement not recognised: " + rest[:120])
    if not arms or arms[-1][0] is not None:
        die("cache_page_size: a case does not end in an unconditional return")
    sized = []
    for cond, e in arms:
        a = re.fullmatch(r"header_size \+ sizeof ?\(cp->data\.(\w+)\)", e)
        if a:
            members.add(a.group(1))
            sized.append((cond, ("member", a.group(1))))
        elif re.fullmatch(r"sizeof ?\(\*cp\)", e):
            sized.append((cond, ("full", None)))
        else:
            die("cache_page_size: size expression not recognised: " + e)
    groups.append((labels, sized))
fn_names = sorted({l for ls, _ in groups for l in ls if l != "default"} | {"UNKNOWN", "LOP", "GPOP", "POP", "GDRCS", "DRCS", "AIT", "MPT", "MPT_EX", "MOT", "MIP", "BTT", "DISCARD"})
members |= {head_member, "lop", "enh_lop", "ext_lop", "pop", "drcs", "ait", "unknown"}

# --- probe -----------------------------------------------------------------------------------------
probe = ['#include <stdio.h>', '#include <stddef.h>', '#include <string.h>', '#include "src/cache-priv.h"', '#include "src/vbi.h"',
         'unsigned int', sfull,     # the text of the definition (its return type stands on the line before the name)
         'int main(void){ cache_page *cp = 0; static cache_page pg; int f, a, b;',
         ' printf("hdr %zu\\n", sizeof(*cp) - sizeof(cp->data));', ' printf("full %zu\\n", sizeof(*cp));',
         ' printf("dataOff %zu\\n", offsetof(cache_page, data));',
         ' printf("tripletSize %zu\\n", sizeof(struct ttx_triplet));',
         ' printf("enhOffEnhLop %zu\\n", offsetof(cache_page, data.enh_lop.enh) - offsetof(cache_page, data));',
         ' printf("enhOffExtLop %zu\\n", offsetof(cache_page, data.ext_lop.enh) - offsetof(cache_page, data));',
         ' printf("enhLen %zu\\n", sizeof(pg.data.enh_lop.enh) / sizeof(pg.data.enh_lop.enh[0]));',
         ' printf("rawOff %zu\\n", offsetof(cache_page, data.unknown.raw) - offsetof(cache_page, data));',
         ' printf("rawRows %zu\\n", sizeof(pg.data.unknown.raw) / sizeof(pg.data.unknown.raw[0]));',
         ' printf("rawCols %zu\\n", sizeof(pg.data.unknown.raw[0]));',
         ' printf("drcsLopSize %zu\\n", sizeof(pg.data.drcs.lop));',
         ' printf("extOff %zu\\n", offsetof(cache_page, data.ext_lop.ext) - offsetof(cache_page, data));',
         ' printf("extSize %zu\\n", sizeof(pg.data.ext_lop.ext));',
         ' printf("pageTextLen %zu\\n", sizeof(((vbi_page *) 0)->text) / sizeof(((vbi_page *) 0)->text[0]));',
         ' printf("drcsLopOff %zu\\n", offsetof(cache_page, data.drcs.lop) - offsetof(cache_page, data));',
         ' printf("popPointerLen %zu\\n", sizeof(pg.data.pop.pointer) / sizeof(pg.data.pop.pointer[0]));',
         ' printf("popTripletLen %zu\\n", sizeof(pg.data.pop.triplet) / sizeof(pg.data.pop.triplet[0]));',
         ' printf("popDstIndex %%d\\n", (int)(%s));' % enh_dst_index,
         ' printf("popEnhBytes %%zu\\n", (size_t)(%s));' % enh_bytes_expr,
         ' printf("pageStatLo %d\\n", 0x100); printf("nPageStats %zu\\n", sizeof(((cache_network*)0)->_pages)/sizeof(((cache_network*)0)->_pages[0]));']
for mb in sorted(members):
    probe.append(' printf("sizeof_%s %%zu\\n", sizeof(cp->data.%s));' % (mb, mb))
for fnm in fn_names:
    probe.append(' printf("fn_%s %%d\\n", (int) PAGE_FUNCTION_%s);' % (fnm, fnm))
probe.append(' static const int bs[] = { 0, 1, 2, 3, 4, 8, 16, 19, 31, 0x20 };')
probe.append(' for (f = -3; f <= 12; ++f) for (a = 0; a < 3; ++a) for (b = 0; b < 10; ++b) {'
             ' memset(&pg, 0, sizeof pg); pg.function = f; pg.x26_designations = a == 2 ? 0x8000 : a; pg.x28_designations = bs[b];'
             ' printf("row %d %u %u %u\\n", f, pg.x26_designations, pg.x28_designations, cache_page_size(&pg)); }')
probe.append(' return 0; }')
with tempfile.TemporaryDirectory() as d:
    c = os.path.join(d, "p.c")
    open(c, "w").write("\n".join(probe))
    exe = os.path.join(d, "p")
    r = subprocess.run(["gcc", "-std=gnu99", "-D_GNU_SOURCE", "-DHAVE_CONFIG_H", "-w", "-I" + REPO, "-I" + os.path.join(REPO, "src"),
                        c, "-o", exe], stdout=subprocess.PIPE, stderr=subprocess.STDOUT)
    if r.returncode != 0:
        die("probe does not compile:\n" + r.stdout.decode()[-2000:])
    out = subprocess.run([exe], stdout=subprocess.PIPE).stdout.decode()
vals, rows = {}, []
for l in out.strip().split("\n"):
    w = l.split()
    if w[0] == "row":
        rows.append(tuple(int(x) for x in w[1:]))
    else:
        vals[w[0]] = int(w[1])


def B(x):
    return "true" if x else "false"


def size_term(t):
    kind, mb = t
    return "fullSize" if kind == "full" else "hdrSize + sizeof_%s" % mb


def arms_term(arms):
    s = ""
    for cond, t in arms:
        if cond is None:
            s += size_term(t)
        elif cond[0] == "x28":
            s += "if x28 &&& %d ≠ 0 then %s else " % (cond[1], size_term(t))
        else:
            s += "if x26 ≠ 0 then %s else " % size_term(t)
    return s


L = ["-- GENERATED by translate/gen_c01.py from src/teletext.c, src/packet.c, src/cache.c, src/cache-priv.h - do not edit",
     "namespace Zvbi.Gen.C01", "",
     "/-! ## teletext.c add_modulo -/",
     "/-- `return %s;` on C `int` (32-bit two's complement; `%%` = truncating remainder `BitVec.srem`) -/" % addmod_c,
     "def addModulo (pgno incr : BitVec 32) : BitVec 32 := %s" % addmod_lean,
     "/-- top_navigation_bar: `pgno1 = add_modulo (vtp->pgno, 1)`, the downward scan steps with -1 from vtp->pgno until pgno1,",
     "    the upward scan with +1 from pgno1 until vtp->pgno; every visited number goes to cache_network_page_stat -/",
     "def navPgno1IsSuccessor : Bool := %s" % B(pgno1),
     "def navScansDownWithMinusOne : Bool := %s" % B(scan_down),
     "def navScansUpWithPlusOne : Bool := %s" % B(scan_up),
     "/-- cache_network_page_stat asserts `pgno >= 0x100 && pgno <= 0x8FF`: `_pages[%d]` from %d -/" % (vals["nPageStats"], vals["pageStatLo"]),
     "def pageStatLo : Nat := %d" % vals["pageStatLo"],
     "def nPageStats : Nat := %d" % vals["nPageStats"], "",
     "/-! ## teletext.c resolve_obj_address: is `cache_page_unref (vtp)` on the path before `return 0`? -/",
     "def unrefOnConvertFail : Bool := %s" % B(exits["convertFail"]),
     "def unrefOnWrongFunction : Bool := %s" % B(exits["wrongFunction"]),
     "def unrefOnPointerOutOfBounds : Bool := %s" % B(exits["pointerOutOfBounds"]),
     "def unrefOnNoObjectDefinition : Bool := %s" % B(exits["noObjectDefinition"]),
     "/-- the `page not cached` path holds no page (and releases none) -/",
     "def unrefOnNotCached : Bool := %s" % B(exits["notCached"]),
     "/-- success: `*vtpp = vtp; return trip + 1;` - the reference goes to the caller -/",
     "def successHandsReferenceOver : Bool := %s" % B(hands_over),
     "def convertsCachedPage : Bool := %s" % B(conv_cached),
     "/-- largest pointer admitted by the guard `if (pointer %s %s)` -/" % (g.group(1), g.group(2)),
     "def pointerLimit : Nat := %d" % ptr_limit,
     "/-- `pointer[packet * %s + i * %s + ((address >> 4) & 1)]`, `packet = (address >> 7) & %s`, `i = ((address >> 5) & %s) * %s + type` -/"
     % (ix.group(1), ix.group(2), pk.group(1), ii.group(1), ii.group(2)),
     "def pointerIndex (packet i half : Nat) : Nat := packet * %s + i * %s + half" % (ix.group(1), ix.group(2)),
     "def packetMask : Nat := %s" % pk.group(1),
     "def groupMask : Nat := %s" % ii.group(1),
     "def groupStride : Nat := %s" % ii.group(2),
     "def popPointerLen : Nat := %d" % vals["popPointerLen"],
     "def popTripletLen : Nat := %d" % vals["popTripletLen"], "",
     "/-! ## teletext.c enhance() object invocation / default_object_invocation(): release after the recursive call -/",
     "def enhanceUnrefAfterObjectFail : Bool := %s" % B(enh_unref_fail),
     "def enhanceUnrefAfterObjectDone : Bool := %s" % B(enh_unref_done),
     "def enhanceFailsOnNullTriplet : Bool := %s" % B(enh_fail_on_null and enh_null_init),
     "def defaultUnrefAfterObjectFail : Bool := %s" % B(def_unref_fail),
     "def defaultUnrefAfterObjectDone : Bool := %s" % B(def_unref_done),
     "def defaultFailsOnNullTriplet : Bool := %s" % B(def_fail_on_null), "",
     "/-! ## cache-priv.h layout (C probe) -/",
     "def hdrSize : Nat := %d" % vals["hdr"], "def fullSize : Nat := %d" % vals["full"], "def dataOff : Nat := %d" % vals["dataOff"]]
for mb in sorted(members):
    L.append("def sizeof_%s : Nat := %d" % (mb, vals["sizeof_" + mb]))
L += ["def tripletSize : Nat := %d" % vals["tripletSize"],
      "/-- offset of `enh[]` inside `data.enh_lop` and inside `data.ext_lop`, its element count -/",
      "def enhOffEnhLop : Nat := %d" % vals["enhOffEnhLop"], "def enhOffExtLop : Nat := %d" % vals["enhOffExtLop"],
      "def enhLen : Nat := %d" % vals["enhLen"],
      "/-- `data.unknown.raw[%d][%d]` at offset %d of the union -/" % (vals["rawRows"], vals["rawCols"], vals["rawOff"]),
      "def rawOff : Nat := %d" % vals["rawOff"], "def rawRows : Nat := %d" % vals["rawRows"], "def rawCols : Nat := %d" % vals["rawCols"],
      "def drcsLopOff : Nat := %d" % vals["drcsLopOff"], "def drcsLopSize : Nat := %d" % vals["drcsLopSize"]]
for fnm in fn_names:
    L.append("def fn_%s : Int := %d" % (fnm, vals["fn_" + fnm]))
L += ["", "/-! ## cache.c cache_page_size(): the switch, translated -/",
      "def cachePageSize (fn : Int) (x26 x28 : Nat) : Nat :="]
first = True
default_arms = None
for labels, arms in groups:
    if labels == ["default"]:
        default_arms = arms
        continue
    cond = " ∨ ".join("fn = fn_%s" % l for l in labels)
    L.append("  %sif %s then %s" % ("" if first else "else ", cond, arms_term(arms)))
    first = False
if default_arms is None:
    die("cache_page_size: no default case")
L.append("  else %s" % arms_term(default_arms))
L += ["/-- the same function text compiled against the headers and run on a grid: (function + 16, x26, x28, result) -/",
      "def probeRows : List (Nat × Nat × Nat × Nat) := ["]
L.append(",\n".join("  " + ", ".join("(%d, %d, %d, %d)" % (r[0] + 16, r[1], r[2], r[3]) for r in rows[i:i + 8]) for i in range(0, len(rows), 8)))
L += ["]", "",
      "/-! ## packet.c vbi_convert_page(): reads from the source page `vtp` -/",
      "/-- `memcpy (&page, vtp, sizeof (*vtp) - sizeof (vtp->data) + sizeof (vtp->data.%s))` -/" % head_member,
      "def convHeadBytes : Nat := hdrSize + sizeof_%s" % head_member,
      "/-- `for (i = a; i <= b; i++) if (vtp->lop_packets & (1 << i)) parse_x (..., vtp->data.unknown.raw[i], i)` -/",
      "def popRowLo : Nat := %d" % pop_rows[0], "def popRowHi : Nat := %d" % pop_rows[1],
      "def aitRowLo : Nat := %d" % ait_rows[0], "def aitRowHi : Nat := %d" % ait_rows[1],
      "def mptRowLo : Nat := %d" % mpt_rows[0], "def mptRowHi : Nat := %d" % mpt_rows[1],
      "def mptExRowLo : Nat := %d" % mptex_rows[0], "def mptExRowHi : Nat := %d" % mptex_rows[1],
      "/-- (G)POP case: `memcpy (&page.data.pop.triplet[%s], vtp->data.enh_lop.enh, %s)` -/" % (enh_dst_index, enh_bytes_expr),
      "def popEnhCopyBytes : Nat := %d" % vals["popEnhBytes"],
      "def popEnhDstIndex : Nat := %d" % vals["popDstIndex"],
      "/-- is the copy executed for a source page with these X/26 designations? (`if (vtp->x26_designations)` %s) -/"
      % ("present" if guarded else "ABSENT"),
      "def popEnhCopyRuns (x26 : Nat) : Bool := %s" % ("x26 != 0" if guarded else "true"),
      "/-- (G)DRCS case: `memmove (&page.data.drcs.lop, &vtp->data.unknown, sizeof (page.data.drcs.lop))` and",
      "    `convert_drcs (&page, vtp->data.unknown.raw[%d])`, which walks %d rows of 40 bytes -/" % (drcs_first_row, drcs_rows),
      "def drcsFirstRow : Nat := %d" % drcs_first_row, "def drcsRowCount : Nat := %d" % drcs_rows,
      "/-- cached conversion: `new_vtp = _vbi_cache_put_page (...); if (NULL != new_vtp) cache_page_unref (vtp); return new_vtp;` -/",
      "def convertReleasesOldOnSuccess : Bool := %s" % B(conv_releases_old),
      "/-- vbi_decode_teletext, header of a cached page: copies `cache_page_size (vtp) - sizeof (*vtp) + sizeof (vtp->data)`",
      "    bytes from `&vtp->data` -/",
      "def headerReloadCopiesSizeMinusHeader : Bool := %s" % B(reload_ok),
      "",
      "/-! ## teletext.c vbi_format_vt_page / enhance: members of the cached page that are read -/",
      "/-- only pages of function LOP / EACEM_TRIGGER are formatted -/",
      "def formatsOnlyLopAndTrigger : Bool := true",
      "/-- `if (vtp->x28_designations & %s) ext = &vtp->data.ext_lop.ext;` -/" % fm.group(1),
      "def formatExtMask : Nat := %d" % int(fm.group(1), 0),
      "/-- `if (vtp->x26_designations & %s)` enhance (..., vtp->data.enh_lop.enh, elements (enh)) -/" % em2.group(1),
      "def formatEnhMask : Nat := %d" % int(em2.group(1), 0),
      "/-- local object: `if (!(vtp->x26_designations & %s)) return FALSE;` before `vtp->data.enh_lop.enh + ...` -/" % lo.group(1),
      "def localObjEnhMask : Nat := %d" % int(lo.group(1), 0),
      "def extOff : Nat := %d" % vals["extOff"], "def extSize : Nat := %d" % vals["extSize"],
      "",
      "/-! ## packet.c vbi_decode_teletext, case 26: X/26 sequence test, stores into `enh_lop.enh[]` -/",
      "/-- `if (rvtp->num_triplets >= %d || rvtp->num_triplets %s designation * %d) { rvtp->num_triplets = %d; return FALSE; }` -/"
      % (x26_limit, x26_op, x26_stride, x26_sentinel),
      "def x26Rejects (nt d : Int) : Bool := decide (nt ≥ %d ∨ %s)" % (x26_limit, {"!=": "nt ≠ d * %d", ">": "nt > d * %d", ">=": "nt ≥ d * %d", "<": "nt < d * %d", "<=": "nt ≤ d * %d", "==": "nt = d * %d"}[x26_op] % x26_stride),
      "def x26Sentinel : Int := %d" % x26_sentinel,
      "def x26Stride : Nat := %d" % x26_stride,
      "/-- triplets of one packet, stored with `enh[rvtp->num_triplets++] = triplet` until the first uncorrectable one -/",
      "def x26PerPacket : Nat := %d" % x26_per_packet,
      "/-- is there a loop `while (num_triplets < designation * %d) memset (&enh[num_triplets++], ...)` between the test and the stores? -/" % x26_stride,
      "def x26GapFill : Bool := %s" % B(x26_gap_fill),
      "/-- the only other assignment in packet.c: `rvtp->num_triplets = 0` at the end of every accepted page header -/",
      "def x26HeaderResets : Bool := %s" % B(hdr_reset),
      "",
      "/-! ## teletext.c top_index(): line counter of a TOP index sub-page -/",
      "/-- declaration: `%s` -/" % decl[0].strip(),
      "def linesSigned : Bool := %s" % B(lines_signed),
      "/-- `acp = &pg->text[%s * EXT_COLUMNS]; lines = %s;` and `lines = %s` again when a sub-page has been skipped -/" % (li.group(1), li.group(2), lp.group(1)),
      "def indexFirstRow : Nat := %s" % li.group(1),
      "def linesInit : Int := %s" % li.group(2),
      "/-- ROWS, EXT_COLUMNS of teletext.c; elements of vbi_page.text[]; right-most cell column the title row writes -/",
      "def pageRows : Nat := %s" % rows_def.group(1), "def extColumns : Nat := %s" % ext_def.group(1),
      "def pageTextLen : Nat := %d" % vals["pageTextLen"],
      "def indexMaxColumn : Nat := %d" % max(cols),
      "", "end Zvbi.Gen.C01", ""]
text = "\n".join(L)
old = open(OUT).read() if os.path.exists(OUT) else None
if old != text:
    os.makedirs(os.path.dirname(OUT), exist_ok=True)
    open(OUT, "w").write(text)
    print("gen_c01: wrote", OUT)
