#!/usr/bin/env python3
"""Translator for the FORMATTER / NAVIGATION obligations of C01 (teletext.c: the Level 1 loop of vbi_format_vt_page and its
navigation block, zap_links, keyword, flof_navigation_bar, flof_links, top_label, top_navigation_bar, top_index; lang.c
vbi_teletext_unicode) -> lean/ZvbiModel/Generated/C01Nav.lean.

Method: each function body is reduced to a SKELETON - comments removed, white space normalised, every integer literal, character
literal, string literal and the macros ROWS / COLUMNS / EXT_COLUMNS / LAST_ROW replaced by a placeholder - and the ordered list of
the replaced literals.  The skeleton must be the one the model was written against (digest below; anything else - a statement added
or dropped, a changed operator, a reordered test - is "not recognised" and the check fails); the LITERALS (array extents, loop
bounds, strides, keyword strings and the counts handed to strncasecmp, character sets handed to strchr, guards of the double
height / double width cases) are written to Lean under names, and the theorems of Props/C01Nav.lean are proved on these
regenerated values: a changed number rebuilds the proofs, and they fail when the number matters.
Extents (vbi_page.text[], nav_link[], nav_index[], lop.raw, lop.link[], btt_link[], ait.title[], title text, vbi_link.url[], the
lang.c tables, font descriptor table with its subset column) come from a C probe that #includes lang.c."""
import hashlib, os, re, subprocess, sys, tempfile

REPO = os.environ.get("ZVBI_REPO", "/repo")
HERE = os.path.dirname(os.path.abspath(__file__))
OUT = os.path.join(HERE, "..", "lean", "ZvbiModel", "Generated", "C01Nav.lean")
SHOW = os.environ.get("C01NAV_SHOW") == "1"        # print skeleton digests and literal lists (maintenance)
NOSKEL = os.environ.get("C01NAV_SKELETON") == "0"  # mutant experiments: do not stop at a changed skeleton


def die(msg):
    sys.exit("gen_c01nav: " + msg)


def strip_comments(s):
    # string / character literals are kept as they are ("https://" is not a comment)
    pat = re.compile(r'"(?:[^"\\\n]|\\.)*"|\'(?:[^\'\\\n]|\\.)\'|/\*.*?\*/|//[^\n]*', flags=re.S)
    return pat.sub(lambda m: m.group(0) if m.group(0)[0] in "\"'" else " ", s)


def function_body(src, name):
    m = re.search(r"^" + re.escape(name) + r"\s*\(", src, flags=re.M)
    if not m:
        die("definition of %s not found" % name)
    i = src.index("{", m.end())
    k, depth = i + 1, 1
    while k < len(src) and depth:
        depth += {"{": 1, "}": -1}.get(src[k], 0)
        k += 1
    return re.sub(r"\s+", " ", src[i + 1:k - 1]).strip()


tel = strip_comments(open(os.path.join(REPO, "src", "teletext.c"), encoding="latin-1").read())
lang = strip_comments(open(os.path.join(REPO, "src", "lang.c"), encoding="latin-1").read())

DEF = {}
for name in ("ROWS", "COLUMNS", "EXT_COLUMNS"):
    m = re.search(r"#define\s+%s\s+(\d+)\b" % name, tel)
    if not m:
        die("#define %s not found in teletext.c" % name)
    DEF[name] = int(m.group(1))
m = re.search(r"#define\s+LAST_ROW\s+\(\(ROWS - 1\) \* EXT_COLUMNS\)", tel)
if not m:
    die("#define LAST_ROW ((ROWS - 1) * EXT_COLUMNS) not found")
DEF["LAST_ROW"] = (DEF["ROWS"] - 1) * DEF["EXT_COLUMNS"]

TOK = re.compile(r'"(?:[^"\\]|\\.)*"|\'(?:[^\'\\]|\\.)\'|\b0[xX][0-9a-fA-F]+[uUlL]*\b|\b\d+[uUlL]*\b|\b(?:ROWS|COLUMNS|EXT_COLUMNS|LAST_ROW)\b')


def c_unescape(s):
    return bytes(s, "latin-1").decode("unicode_escape").encode("latin-1")


def skeleton(body):
    lits = []

    def rep(m):
        t = m.group(0)
        if t[0] == '"':
            lits.append(list(c_unescape(t[1:-1])))
            return "S"
        if t[0] == "'":
            lits.append(c_unescape(t[1:-1])[0])
            return "N"
        if t in DEF:
            lits.append(DEF[t])
            return "N"
        lits.append(int(re.sub(r"[uUlL]+$", "", t), 0))
        return "N"
    sk = TOK.sub(rep, body)
    return hashlib.sha1(sk.encode()).hexdigest()[:16], lits, sk


EXPECT = {
    # function: (source, skeleton digest, number of literals)
    "keyword": (tel, "b0fc0b55920fb12a", 0),
    "zap_links": (tel, "59703f257eee1fff", 0),
    "flof_navigation_bar": (tel, "5c733ba6fc79f9c7", 0),
    "flof_links": (tel, "55debc93aa4408c4", 0),
    "top_label": (tel, "4f2515987fbd52bb", 0),
    "top_navigation_bar": (tel, "f72ccf8cc2c28b93", 0),
    "top_index": (tel, "9651a6afa599395e", 0),
    "vbi_teletext_unicode": (lang, "bf1b1196fe61e673", 0),
}
ZAP_REPAIRED = "5fae350bdfaf3a20"
ZAP_CLEARED = False
L = {}
for fn, (src, dig, _) in EXPECT.items():
    d, lits, sk = skeleton(function_body(src, fn))
    if SHOW:
        print(fn, d, len(lits))
        print("   ", [(i, x if not isinstance(x, list) else bytes(x)) for i, x in enumerate(lits)])
    elif fn == "zap_links" and d == ZAP_REPAIRED:
        ZAP_CLEARED = True        # fixes/C01-zap-links-uninit-link.diff applied: `memset (link, 0, sizeof (link));` before the keyword loop
    elif d != dig and not NOSKEL:
        die("%s: not recognised (the statement skeleton of the function is not the one the model follows: %s, expected %s)" % (fn, d, dig))
    L[fn] = lits

# vbi_format_vt_page: the Level 1 loop (from `i = 0; pg->double_height_lower = 0;` to the `if (0)` block) and the navigation block
fb = function_body(tel, "vbi_format_vt_page")
m = re.search(r"snprintf \(buf, sizeof \(buf\), (\"[^\"]*\"), vtp->pgno, vtp->subno & 0xff\);", fb)
if not m:
    die("vbi_format_vt_page: header snprintf not recognised")
hdr_fmt = list(c_unescape(m.group(1)[1:-1]))
m = re.search(r"char buf\[(\d+)\];", fb)
if not m:
    die("vbi_format_vt_page: char buf[] not recognised")
hdr_buf_len = int(m.group(1))
m = re.search(r"display_rows = SATURATE\(display_rows, (\d+), (\w+)\);", fb)
if not m:
    die("vbi_format_vt_page: SATURATE (display_rows ...) not recognised")
sat_lo, sat_hi = int(m.group(1)), DEF.get(m.group(2)) if m.group(2) in DEF else int(m.group(2), 0)
a = fb.find("i = 0; pg->double_height_lower = 0;")
b = fb.find("if (0) { if (row < ROWS)")
if a < 0 or b < 0:
    die("vbi_format_vt_page: Level 1 loop not found")
d1, l1, sk1 = skeleton(fb[a:b])
a = fb.find("if (navigation) {")
b = fb.find("column_41 (pg, ext);")
if a < 0 or b < 0:
    die("vbi_format_vt_page: navigation block not found")
d2, l2, sk2 = skeleton(fb[a:b])
EXP_L1, EXP_NAV = "9f53c08e28bf6368", "d42e7da9d61227ba"
if SHOW:
    print("l1", d1, len(l1)); print("   ", list(enumerate(l1)))
    print("nav", d2, len(l2)); print("   ", list(enumerate(l2)))
else:
    if d1 != EXP_L1 and not NOSKEL:
        die("vbi_format_vt_page: Level 1 loop not recognised (%s, expected %s)" % (d1, EXP_L1))
    if d2 != EXP_NAV and not NOSKEL:
        die("vbi_format_vt_page: navigation block not recognised (%s, expected %s)" % (d2, EXP_NAV))

# ---------------------------------------------------------------- C probe
PROBE = r"""
#include <stdio.h>
#include <stddef.h>
#include "src/lang.c"
#include "src/vt.h"
#include "src/cache-priv.h"
#define N(a) ((int)(sizeof(a)/sizeof((a)[0])))
int main(void){
  vbi_page pg; cache_page cp; cache_network cn; vbi_link ld; int i;
  printf("textLen %d\n", N(pg.text));
  printf("navLinkLen %d\n", N(pg.nav_link));
  printf("navIndexLen %d\n", N(pg.nav_index));
  printf("fontLen %d\n", N(pg.font));
  printf("opacityLen %d\n", N(pg.page_opacity));
  printf("rawLen %d\n", (int) sizeof(cp.data.lop.raw));
  printf("lopLinkLen %d\n", N(cp.data.lop.link));
  printf("bttLinkLen %d\n", N(cn.btt_link));
  printf("aitTitleLen %d\n", N(cp.data.ait.title));
  printf("aitTextLen %d\n", N(cp.data.ait.title[0].text));
  printf("urlLen %d\n", N(ld.url));
  printf("nationalRows %d\n", N(national_subset));
  printf("nationalCols %d\n", N(national_subset[0]));
  printf("latinG2 %d\n", N(latin_g2));
  printf("cyr1 %d\n", N(cyrillic_1_g0));
  printf("cyr2 %d\n", N(cyrillic_2_g0));
  printf("cyr3 %d\n", N(cyrillic_3_g0));
  printf("cyrG2 %d\n", N(cyrillic_g2));
  printf("greekG0 %d\n", N(greek_g0));
  printf("greekG2 %d\n", N(greek_g2));
  printf("arabicG0 %d\n", N(arabic_g0));
  printf("arabicG2 %d\n", N(arabic_g2));
  printf("hebrewG0 %d\n", N(hebrew_g0));
  printf("fonts %d\n", N(vbi_font_descriptors));
  printf("intBits %d\n", (int) sizeof(int) * 8);
  printf("sizes %d %d %d %d %d %d %d %d\n", VBI_NORMAL_SIZE, VBI_DOUBLE_WIDTH, VBI_DOUBLE_HEIGHT, VBI_DOUBLE_SIZE,
         VBI_OVER_TOP, VBI_OVER_BOTTOM, VBI_DOUBLE_HEIGHT2, VBI_DOUBLE_SIZE2);
  printf("sets %d %d %d %d %d %d %d %d %d %d %d %d %d\n", LATIN_G0, LATIN_G2, CYRILLIC_1_G0, CYRILLIC_2_G0, CYRILLIC_3_G0,
         CYRILLIC_G2, GREEK_G0, GREEK_G2, ARABIC_G0, ARABIC_G2, HEBREW_G0, BLOCK_MOSAIC_G1, SMOOTH_MOSAIC_G3);
  printf("g0"); for (i = 0; i < N(vbi_font_descriptors); i++) printf(" %d", (int) vbi_font_descriptors[i].G0); printf("\n");
  printf("subset"); for (i = 0; i < N(vbi_font_descriptors); i++) printf(" %d", (int) vbi_font_descriptors[i].subset); printf("\n");
  return 0;
}
"""
with tempfile.TemporaryDirectory() as td:
    src = os.path.join(td, "probe.c")
    open(src, "w").write(PROBE)
    exe = os.path.join(td, "probe")
    p = subprocess.run(["gcc", "-w", "-D_GNU_SOURCE", "-DHAVE_CONFIG_H", "-I" + REPO, "-I" + os.path.join(REPO, "src"), src, "-o", exe],
                       stdout=subprocess.PIPE, stderr=subprocess.PIPE)
    if p.returncode != 0:
        die("probe does not compile:\n" + p.stderr.decode()[-2000:])
    out = subprocess.run([exe], stdout=subprocess.PIPE).stdout.decode()
P = {}
for line in out.strip().split("\n"):
    k, *v = line.split()
    P[k] = [int(x) for x in v]


def lst(xs):
    return "[" + ", ".join(str(x) for x in xs) + "]"


def lit(fn, idx, expect_kind=int):
    try:
        v = L[fn][idx]
    except IndexError:
        die("%s: literal #%d missing" % (fn, idx))
    if expect_kind is list and not isinstance(v, list) or expect_kind is int and isinstance(v, list):
        die("%s: literal #%d has the wrong kind" % (fn, idx))
    return v

if SHOW:
    sys.exit(0)

o = []
w = o.append
w("-- GENERATED by translate/gen_c01nav.py from src/teletext.c, src/lang.c and a C probe - do not edit")
w("namespace Zvbi.Gen.C01Nav")
w("")
w("/-! ## macros and extents -/")
w("def rows : Nat := %d" % DEF["ROWS"])
w("def columns : Nat := %d" % DEF["COLUMNS"])
w("def extColumns : Nat := %d" % DEF["EXT_COLUMNS"])
w("def lastRow : Nat := %d" % DEF["LAST_ROW"])
for k in ("textLen", "navLinkLen", "navIndexLen", "fontLen", "opacityLen", "rawLen", "lopLinkLen", "bttLinkLen", "aitTitleLen",
          "aitTextLen", "urlLen", "nationalRows", "nationalCols", "intBits"):
    w("def %s : Nat := %d" % (k, P[k][0]))
w("/-- extents of the lang.c tables indexed by vbi_teletext_unicode, by `vbi_character_set` value (0 = no table) -/")
sets = P["sets"]
tab = {sets[1]: P["latinG2"][0], sets[2]: P["cyr1"][0], sets[3]: P["cyr2"][0], sets[4]: P["cyr3"][0], sets[5]: P["cyrG2"][0],
       sets[6]: P["greekG0"][0], sets[7]: P["greekG2"][0], sets[8]: P["arabicG0"][0], sets[9]: P["arabicG2"][0], sets[10]: P["hebrewG0"][0]}
w("def tableLen (s : Nat) : Nat := " + " ".join("if s = %d then %d else" % (k, v) for k, v in sorted(tab.items())) + " 0")
w("def kLatinG0 : Nat := %d" % sets[0])
w("def fontG0s : List Nat := " + lst(P["g0"]))
w("def fontSubsets : List Nat := " + lst(P["subset"]))
w("def sizeVals : List Nat := " + lst(P["sizes"]) + "   -- NORMAL, DOUBLE_WIDTH, DOUBLE_HEIGHT, DOUBLE_SIZE, OVER_TOP, OVER_BOTTOM, DOUBLE_HEIGHT2, DOUBLE_SIZE2")
w("")
K = lambda i, kind=int: lit("keyword", i, kind)
w("/-! ## keyword() -/")
w("def kwPgnoDigits : Nat := %d   -- `if (i < 4) ld->pgno = ...`" % K(7))
w("def kwLongRun : Nat := %d      -- `|| i > 3`" % K(11))
w("def kwExact : Nat := %d        -- `if (i == 3)`" % K(12))
w("def kwPgLo : Nat := %d" % K(13))
w("def kwPgHi : Nat := %d" % K(14))
w("def kwSeps : List Nat := " + lst([K(15), K(16)]))
w("def kwSubDigits : Nat := %d" % K(19))
w("def kwSubRunMax : Nat := %d    -- `j > 1`" % K(22))
w("def kwSubHi : Nat := %d" % K(23))
w("/-- the prefixes tried in order: (string, count given to strncasecmp, e-mail?, length of the text copied into url[] first) -/")
rowsK = [(K(26, list), K(27), False, 0), (K(28, list), K(29), False, 0), (K(30, list), K(31), False, len(K(32, list))),
         (K(33, list), K(34), False, 0)]
w("def kwPrefixes : List (List Nat × Nat × Bool × Nat) := [" + ", ".join(
    "(%s, %d, %s, %d)" % (lst(a), b, "true" if c else "false", d) for a, b, c, d in rowsK) + "]")
w("/-- `*s == '@' || *s == 0xA7` (tried after the prefixes above), i = %d, then the two bracketed forms -/" % K(38))
w("def kwAtChars : List Nat := " + lst([K(35), K(36)]))
w("def kwAtLen : Nat := %d" % K(38))
w("def kwMailto : Nat := %d" % len(K(37, list)))
if not (K(37, list) == K(41, list) == K(44, list)):
    die("keyword: the three mailto: strings differ")
w("def kwPrefixesAt : List (List Nat × Nat × Bool × Nat) := [" + ", ".join(
    "(%s, %d, true, %d)" % (lst(a), b, len(K(37, list))) for a, b in [(K(39, list), K(40)), (K(42, list), K(43))]) + "]")
w("def kwUrlSet : List Nat := " + lst(K(47, list)))
w("def kwDot : Nat := %d" % K(48))
w("def kwBackSet : List Nat := " + lst(K(55, list)))
w("def kwAtSign : Nat := %d" % len(K(58, list)))
Z = lambda i: lit("zap_links", i + (1 if ZAP_CLEARED and i >= 15 else 0))
if ZAP_CLEARED and lit("zap_links", 15) != 0:
    die("zap_links: memset (link, 0, ...) expected")
w("")
w("/-! ## zap_links() -/")
w("def zapBufferLen : Nat := %d" % Z(0))
w("def zapLinkLen : Nat := %d" % Z(1))
w("def zapStride : Nat := %d" % Z(2))
w("def zapCols : Nat := %d" % Z(4))
w("def zapCols2 : Nat := %d" % Z(18))
w("def zapCharLo : Nat := %d" % Z(6))
w("def zapCharHi : Nat := %d" % Z(7))
w("def zapPad : Nat := %d" % Z(8))
w("/-- `buffer[j + 1] = c`, `buffer[0] = ' '`, `buffer[j + 1] = ' '`, `buffer[j + 2] = 0`, `keyword (&ld, buffer, i + 1, ...)` -/")
w("def zapOffsets : List Nat := " + lst([Z(5), Z(9), Z(11), Z(13), Z(16)]))
w("def zapPads : List Nat := " + lst([Z(10), Z(12), Z(14)]))
w("/-- `memset (link, 0, sizeof (link));` before the keyword loop (fixes/C01-zap-links-uninit-link.diff) present? -/")
w("def zapLinkCleared : Bool := %s" % ("true" if ZAP_CLEARED else "false"))
F = lambda i: lit("flof_navigation_bar", i)
w("")
w("/-! ## flof_navigation_bar(), flof_links() -/")
w("def flofFill : Nat := %d" % F(4))
w("def flofBase : Nat := %d" % F(5))
w("def flofBase2 : Nat := %d" % F(19))
w("def flofKeys : Nat := %d" % F(7))
w("def flofStride : Nat := %d" % F(8))
w("def flofOff : Nat := %d" % F(9))
w("def flofDigits : Nat := %d" % F(11))
G = lambda i: lit("flof_links", i)
w("def flofLinksBase : Nat := %d" % G(0))
w("def flofLinksEnd : Nat := %d   -- `i < COLUMNS + 1`" % (G(4) + G(5)))
w("def flofLinksStop : Nat := %d  -- `i == COLUMNS ||`" % G(6))
w("def flofLinksBreak : Nat := %d -- `if (i >= COLUMNS) break;`" % G(13))
w("def flofLinksKeys : Nat := %d" % G(9))
w("def flofLinksKeys2 : Nat := %d" % G(10))
T = lambda i: lit("top_label", i)
w("")
w("/-! ## top_label(), top_navigation_bar(), top_index() -/")
w("def topStride : Nat := %d" % T(0))
w("def topOff : Nat := %d" % T(1))
w("def topBase : Nat := %d" % T(2))
w("def topBttLoop : Nat := %d" % T(4))
w("def topTitles : Nat := %d" % T(9))
w("def topTextLast : Nat := %d" % T(10))
w("def topTextLasts : List Nat := " + lst([T(13), T(14), T(16), T(31), T(33)]))
w("def topArrowOffs : List Nat := " + lst([T(18), T(19), T(20), T(22), T(23), T(24), T(26), T(28), T(29), T(30)]))
w("def topCharLo : Nat := %d" % T(36))
N_ = lambda i: lit("top_navigation_bar", i)
w("def topBarFill : Nat := %d" % N_(7))
w("def topBarBase : Nat := %d" % N_(8))
w("/-- the three calls: (index, ff) -/")
tnb = function_body(tel, "top_navigation_bar")
calls = re.findall(r"top_label\(vbi, pg, pg->font\[0\], (\d+), i, [^,]+, (\d+)\);", tnb)
if len(calls) != 3:
    die("top_navigation_bar: three top_label calls expected")
w("def topCalls : List (Nat × Nat) := [" + ", ".join("(%s, %s)" % c for c in calls) + "]")
I = lambda i, kind=int: lit("top_index", i, kind)
w("def tixFill : Nat := %d" % (I(19) * I(20)))
w("def tixTitle : List Nat := " + lst([I(23), I(24), I(25), I(26)]) + "   -- pg->text[a * b + c + i * d]")
w("def tixTitleLen : Nat := %d" % len(I(21, list)))
w("def tixFirstRow : Nat := %d" % I(27))
w("def tixStride : Nat := %d" % I(28))
w("def tixStride2 : Nat := %d" % I(59))
w("def tixLines : Nat := %d" % I(29))
w("def tixTextLast : Nat := %d" % I(36))
w("def tixIndent : List Nat := " + lst([I(39), I(40)]))
w("def tixDotsAdd : Nat := %d" % I(46))
w("def tixDotsLast : Nat := %d" % I(47))
w("def tixDigits : Nat := %d" % I(50))
w("def tixDigitsAt : Nat := %d" % I(58))
U = lambda i: lit("vbi_teletext_unicode", i)
w("")
w("/-! ## lang.c vbi_teletext_unicode() -/")
w("def tuCharLo : Nat := %d" % U(0))
w("def tuCharHi : Nat := %d" % U(1))
w("def tuShortcut : Nat := %d" % U(2))
w("def tuSubsetLimit : Nat := %d   -- `assert (n < 14)`" % U(6))
w("def tuSubsetCols : Nat := %d" % U(8))
w("/-- per character set: (table is read when c >= guard, index = c - base) -/")
gb = {sets[1]: (0, U(16)), sets[2]: (U(17), U(18)), sets[3]: (U(21), U(22)), sets[4]: (U(25), U(26)), sets[5]: (0, U(27)),
      sets[6]: (U(32), U(33)), sets[7]: (0, U(34)), sets[8]: (0, U(35)), sets[9]: (0, U(36)), sets[10]: (U(37), U(38))}
w("def tuTable (s : Nat) : Option (Nat × Nat) := " + " ".join("if s = %d then some (%d, %d) else" % (k, a, b) for k, (a, b) in sorted(gb.items())) + " none")
w("/-- sets handled without a table (LATIN_G0, BLOCK_MOSAIC_G1, SMOOTH_MOSAIC_G3); anything else reaches `exit (EXIT_FAILURE)` -/")
w("def tuPlainSets : List Nat := " + lst([sets[0], sets[11], sets[12]]))
w("def tuMosaicSet : Nat := %d" % sets[11])
w("def tuMosaicGap : List Nat := " + lst([U(39), U(40)]) + "   -- `assert (c < 0x40 || c >= 0x60)`")
w("")
w("/-! ## vbi_format_vt_page(): Level 1 loop and navigation block -/")
w("def hdrBufLen : Nat := %d" % hdr_buf_len)
w("def hdrFormat : List Nat := " + lst(hdr_fmt))
w("def satLo : Nat := %d" % sat_lo)
w("def satHi : Nat := %d" % sat_hi)
w("def l1Stride : Nat := %d" % l1[3])
w("def l1ColLoop : Nat := %d" % l1[13])
w("def l1Col40 : Nat := %d" % l1[11])
w("def l1HdrCols : Nat := %d" % l1[15])
w("def l1CharCtl : Nat := %d     -- `if (raw <= 0x1F)`" % l1[30])
w("def l1WideLast : Nat := %d    -- `column < (COLUMNS - 1)` of the double width store" % (l1[34] - l1[35]))
w("def l1PeekLasts : List Nat := " + lst([l1[43] - l1[44], l1[49] - l1[50]]))
w("def l1DhRows : List Nat := " + lst([l1[55], l1[56], l1[65], l1[66]]) + "   -- `row <= a || row >= b` (0x0D), (0x0F)")
w("def l1DwLast : Nat := %d" % (l1[59] - l1[60]))
w("def l1DsLast : Nat := %d" % (l1[63] - l1[64]))
w("def l1LowerLoop : Nat := %d" % l1[74])
w("def l1LowerStrides : List Nat := " + lst([l1[75], l1[76], l1[77], l1[79]]))
w("def l1RowSkip : Nat := %d    -- `i += COLUMNS`" % l1[80])
w("def navHome : Nat := %d" % l2[0])
w("def navZapFirst : Nat := %d" % l2[2])
w("def navZapLast : Nat := %d   -- `row < MIN (ROWS - 1, display_rows)`" % (l2[3] - l2[4]))
w("def navBarRows : Nat := %d   -- `display_rows >= ROWS`" % l2[5])
w("def navHomeIdx : List Nat := " + lst([l2[1], l2[6], l2[8], l2[10], l2[13], l2[14], l2[15], l2[16]]))
w("def navPacket24 : Nat := %d" % l2[18])
w("")
w("end Zvbi.Gen.C01Nav")
text = "\n".join(o) + "\n"
if not os.path.exists(OUT) or open(OUT).read() != text:
    open(OUT, "w").write(text)
