#!/usr/bin/env python3
"""Translator for the RENDERER obligations of C01 (exp-gfx.c draw_drcs, clip_size, draw_blank, unicode_wstfont2, draw_char, the
cell loop and the DRCS call sites of vbi_draw_vt_page_region and draw_row_indexed; lang.c vbi_teletext_composed_unicode and its
call in teletext.c enhance()) -> lean/ZvbiModel/Generated/C01Gfx.lean.

Method: the text of each function (comments removed, white space normalised) must have the shape the model was written against -
every `case` of draw_drcs is `[src += N;] for (y = 0; y < E; canvas += rowstride [* M], y++) for (x = 0; x < E; src++, x += S)
{ pokes }` with nothing else in it; anything else is "not recognised" (non-zero exit).  The numbers (glyph stride, half skip, loop
bounds, steps, poke offsets, masks and shifts at the call sites, clip_size pairs, asserts and the result base of the composed
search, the table itself) are written to Lean; extents (`drcs.chars[][]`, `vbi_page.drcs[]`, pen, composed[]) and enum values
come from a C probe that #includes lang.c, wstfont2.xbm and the headers.  unicode_wstfont2 and draw_char are tied by a digest of
their statement skeleton (every literal replaced by a placeholder) plus the ordered list of their literals, which the hand-written
model Gfx/Model.lean refers to by position (`uwN42` ...)."""
import os, re, subprocess, sys, tempfile

REPO = os.environ.get("ZVBI_REPO", "/repo")
HERE = os.path.dirname(os.path.abspath(__file__))
OUT = os.path.join(HERE, "..", "lean", "ZvbiModel", "Generated", "C01Gfx.lean")


def die(msg):
    sys.exit("gen_c01gfx: " + msg)


def strip_comments(s):
    pat = re.compile(r'"(?:[^"\\\n]|\\.)*"|\'(?:[^\'\\\n]|\\.)\'|/\*.*?\*/|//[^\n]*', flags=re.S)
    return pat.sub(lambda m: m.group(0) if m.group(0)[0] in "\"'" else " ", s)


def function_body(src, name):
    m = re.search(r"^" + re.escape(name) + r"\s*\(", src, flags=re.M)
    if not m:
        die("definition of %s not found" % name)
    i = src.index("{", m.end())
    k, depth = i + 1, 1
    while k < len(src) and depth:
        depth += {"{": 1, "}": -1}.get(src[k], 0)
        k += 1
    return re.sub(r"\s+", " ", src[i + 1:k - 1]).strip()


def rd(name):
    return strip_comments(open(os.path.join(REPO, "src", name), encoding="latin-1").read())


gfx, lang, tel, langh = rd("exp-gfx.c"), rd("lang.c"), rd("teletext.c"), rd("lang.h")

DEF = {}
for name in ("TCW", "TCH"):
    m = re.search(r"#define\s+%s\s+(\d+)\b" % name, gfx)
    if not m:
        die("#define %s not found in exp-gfx.c" % name)
    DEF[name] = int(m.group(1))


def ev(e):
    e = e.strip()
    if not re.fullmatch(r"(?:TCW|TCH|\d+)(?: [*/] (?:TCW|TCH|\d+))*", e):
        die("loop bound `%s` not recognised" % e)
    toks = e.split(" ")
    v = DEF.get(toks[0]) if toks[0] in DEF else int(toks[0])
    for op, t in zip(toks[1::2], toks[2::2]):
        n = DEF.get(t) if t in DEF else int(t)
        v = v * n if op == "*" else v // n
    return v


# ---------------------------------------------------------------- draw_drcs
body = function_body(gfx, "draw_drcs")
m = re.fullmatch(r"uint8_t \*src; unsigned int col; int x, y; src = font \+ glyph \* (\d+); pen = pen \+ color \* canvas_type; "
                 r"switch \(size\) \{ (.*) default: break; \}", body)
if not m:
    die("draw_drcs: not recognised (prologue `src = font + glyph * N; pen = pen + color * canvas_type; switch (size)`)")
glyph_stride = int(m.group(1))
rest = m.group(2).strip()
LOOP = re.compile(r"((?:case \w+: (?:src \+= \d+; )?)+)for \(y = 0; y < ([^;]+); canvas \+= rowstride( \* \d+)?, y\+\+\) "
                  r"for \(x = 0; x < ([^;]+); src\+\+, x \+= (\d+)\) \{ ([^{}]*) \} break; ")
loops = []     # (size name, skip, yEnd, yMul, xEnd, xStep, pokes)
pos = 0
rest += " "
while pos < len(rest):
    m = LOOP.match(rest, pos)
    if not m:
        die("draw_drcs: not recognised (case block at `%s...`)" % rest[pos:pos + 60])
    labels, yend, ymul, xend, xstep, inner = m.groups()
    pokes, nib = [], []
    stm = [s.strip() for s in inner.split(";") if s.strip()]
    for s in stm:
        p = re.fullmatch(r"poke\(canvas, x \+ (rowstride / canvas_type \+ )?(\d+), (?:col|peek\(pen, \*src (& \d+|>> \d+)\))\)", s)
        c = re.fullmatch(r"col = peek\(pen, \*src (& \d+|>> \d+)\)", s)
        if p:
            pokes.append((1 if p.group(1) else 0, int(p.group(2))))
            if p.group(3):
                nib.append(p.group(3))
        elif c:
            nib.append(c.group(1))
        else:
            die("draw_drcs: statement `%s` not recognised" % s)
    for nb in nib:
        if nb not in ("& 15", ">> 4"):
            die("draw_drcs: pen index `*src %s` not recognised (a 4 bit index expected)" % nb)
    # the labels of this block with the `src += N` in force when control reaches the loop from each of them (fall through)
    parts = re.findall(r"case (\w+): (?:src \+= (\d+); )?", labels)
    for i, (lab, _) in enumerate(parts):
        skip = sum(int(s) for _, s in parts[i:] if s)
        loops.append((lab, skip, ev(yend), int(ymul[3:]) if ymul else 1, ev(xend), int(xstep), pokes))
    pos = m.end()

# ---------------------------------------------------------------- clip_size
body = function_body(gfx, "clip_size")
m = re.fullmatch(r"if \(!last_column\) return size; switch \(size\) \{ ((?:case \w+: return \w+; )+)default: return size; \}", body)
if not m:
    die("clip_size: not recognised")
clips = re.findall(r"case (\w+): return (\w+); ", m.group(1))

# ---------------------------------------------------------------- call sites
sites = re.findall(r"uint8_t \*font = pg->drcs\[\(unicode >> (\d+)\) & (0x[0-9A-Fa-f]+|\d+)\];", gfx)
calls = re.findall(r"draw_drcs(?:_indexed)?\s*\([^;]*?font,\s*unicode & (0x[0-9A-Fa-f]+|\d+),\s*([^;]*?)\);", gfx, flags=re.S)
if len(sites) != 4 or len(calls) != 4:
    die("DRCS call sites not recognised (%d `font = pg->drcs[(unicode >> S) & M]`, %d draw_drcs calls; 4 and 4 expected)"
        % (len(sites), len(calls)))
if len(set(sites)) != 1 or len(set(c[0] for c in calls)) != 1:
    die("DRCS call sites use different shifts / masks: %s %s" % (sites, [c[0] for c in calls]))
plane_shift, plane_mask, glyph_mask = int(sites[0][0]), int(sites[0][1], 0), int(calls[0][0], 0)
if len(re.findall(r"if \(font(?: && !is_cc)?\)\s*draw_drcs", gfx)) != 4:
    die("DRCS call sites: `if (font ...) draw_drcs` expected four times")
if re.sub(r"\s+", " ", calls[0][1]) != "clip_size (ac->size, 1 == count)":
    die("vbi_draw_vt_page_region: draw_drcs size argument `%s` not recognised" % calls[0][1])
if any(c[1].strip() != "ac->size" for c in calls[1:]):
    die("draw_row_indexed: draw_drcs size argument not recognised")
rb = function_body(gfx, "draw_row_indexed")
if "clipped.size = clip_size (row_ac->size, column == pg->columns - 1);" not in rb or "vbi_char *ac = &clipped;" not in rb \
        or "for (column = 0; column < pg->columns ; canvas += cw, column++, row_ac++)" not in rb:
    die("draw_row_indexed: clip / column loop not recognised")
vb = function_body(gfx, "vbi_draw_vt_page_region")
m = re.search(r"rowstride = pg->columns \* (\d+) \* canvas_type; row_adv = rowstride \* (\d+) - width \* (\d+) \* canvas_type;", vb)
if not m:
    die("vbi_draw_vt_page_region: rowstride / row_adv not recognised")
def_w, adv_h, adv_w = map(int, m.groups())
if "for (count = width; count > 0; count--, ac++)" not in vb or "canvas = (uint8_t *)canvas + TCW * canvas_type;" not in vb \
        or "canvas = (uint8_t *)canvas + row_adv;" not in vb or "for (; height > 0; height--, row++)" not in vb:
    die("vbi_draw_vt_page_region: loops / canvas advance not recognised")
m = re.search(r"vbi_rgba rgba\[(\d+)\]; uint8_t pal8\[(\d+)\];", vb)
if not m or m.group(1) != m.group(2):
    die("vbi_draw_vt_page_region: pen union not recognised")
pen_len = int(m.group(1))
m = re.search(r"vbi_is_drcs\(unsigned int unicode\) \{ return unicode >= (0x[0-9A-Fa-f]+); \}", re.sub(r"\s+", " ", langh))
if not m:
    die("lang.h vbi_is_drcs: not recognised")
is_drcs_min = int(m.group(1), 0)
m = re.search(r"unicode = (0x[0-9A-Fa-f]+) \+ \(page << (\d+)\) \+ offset; goto store;", re.sub(r"\s+", " ", tel))
if not m:
    die("teletext.c enhance(): `unicode = 0xF000 + (page << 6) + offset` not recognised")
drcs_base, drcs_shift = int(m.group(1), 0), int(m.group(2))

# ---------------------------------------------------------------- vbi_teletext_composed_unicode
body = function_body(lang, "vbi_teletext_composed_unicode")
m = re.fullmatch(r"unsigned int i; assert\(a <= (\d+)\); assert\(c >= (0x[0-9A-Fa-f]+) && c <= (0x[0-9A-Fa-f]+)\); "
                 r"if \(a == 0\) \{ if \(c == (0x[0-9A-Fa-f]+)\) return (0x[0-9A-Fa-f]+)u; "
                 r"return vbi_teletext_unicode\((\w+), (\w+), c\); \} c \+= a << (\d+); "
                 r"for \(i = 0; i < sizeof\(composed\) / sizeof\(composed\[0\]\); i\+\+\) if \(composed\[i\] == c\) "
                 r"return (0x[0-9A-Fa-f]+)u \+ i; return 0;", body)
if not m:
    die("vbi_teletext_composed_unicode: not recognised")
cu_amax, cu_clo, cu_chi, cu_star, cu_at = int(m.group(1)), int(m.group(2), 0), int(m.group(3), 0), int(m.group(4), 0), int(m.group(5), 0)
cu_set, cu_subset, cu_shift, cu_base = m.group(6), m.group(7), int(m.group(8)), int(m.group(9), 0)
m = re.search(r"case (0x[0-9A-Fa-f]+) \.\.\. (0x[0-9A-Fa-f]+): if \(p->data >= (0x[0-9A-Fa-f]+)\) \{ if \(column > es\.active_column\) "
              r"enhance_flush \(&es, column\); unicode = vbi_teletext_composed_unicode\( p->mode - (0x[0-9A-Fa-f]+), p->data\);",
              re.sub(r"\s+", " ", tel))
if not m:
    die("teletext.c enhance(): the call of vbi_teletext_composed_unicode is not recognised")
call_lo, call_hi, call_guard, call_sub = (int(x, 0) for x in m.groups())

# ---------------------------------------------------------------- unicode_wstfont2, draw_char (font side)
import hashlib
LIT = re.compile(r'\b0[xX][0-9a-fA-F]+[uUlL]*\b|\b\d+[uUlL]*\b')


def skeleton(body):
    lits = []

    def rep(m):
        lits.append(int(re.sub(r"[uUlL]+$", "", m.group(0)), 0))
        return "N"
    sk = LIT.sub(rep, body)
    return hashlib.sha1(sk.encode()).hexdigest()[:16], lits


UW_DIGEST, UW_LITS, DC_DIGEST, DC_LITS = "76e652aecb3f4b98", 97, "249e8c2e4a47b0b9", 45
d, uw = skeleton(function_body(gfx, "unicode_wstfont2"))
if d != UW_DIGEST or len(uw) != UW_LITS:
    die("unicode_wstfont2: not recognised (statement skeleton %s with %d literals, expected %s with %d)" % (d, len(uw), UW_DIGEST, UW_LITS))
d, dc = skeleton(function_body(gfx, "draw_char"))
if d != DC_DIGEST or len(dc) != DC_LITS:
    die("draw_char: not recognised (statement skeleton %s with %d literals, expected %s with %d)" % (d, len(dc), DC_DIGEST, DC_LITS))
if not re.search(r"#define\s+TCPL\s+\(wstfont2_width / TCW \* wstfont2_height / TCH\)", gfx):
    die("#define TCPL (wstfont2_width / TCW * wstfont2_height / TCH) not found")
xbm = rd("wstfont2.xbm")
mw, mh = re.search(r"#define\s+wstfont2_width\s+(\d+)", xbm), re.search(r"#define\s+wstfont2_height\s+(\d+)", xbm)
if not mw or not mh:
    die("wstfont2.xbm: width / height not found")
tcpl = int(mw.group(1)) // DEF["TCW"] * int(mh.group(1)) // DEF["TCH"]
if (dc[14], dc[16]) != (dc[17], dc[19]):
    die("draw_char: the two copies of `src[a] * 256 + src[b]` differ")
if any(dc[k] != 0 for k in (10, 20, 23, 27, 34)):
    die("draw_char: a loop does not start at 0")
bb = function_body(gfx, "draw_blank")
if bb != "int x, y; for (y = 0; y < ch; y++) { for (x = 0; x < cw; x++) poke(canvas, x, color); canvas += rowstride; }":
    die("draw_blank: not recognised")
if len(re.findall(r"draw_blank\s*\(canvas_type, canvas, rowstride,[^;]*?TCW, TCH\);", gfx, flags=re.S)) != 1:
    die("vbi_draw_vt_page_region: draw_blank (..., TCW, TCH) not recognised")
vt_calls = re.findall(r"\(uint8_t \*\) wstfont2_bits,\s*TCPL, TCW, TCH,\s*unicode_wstfont2\s*\(unicode, ac->italic\),", gfx)
if len(vt_calls) != 2:
    die("draw_char calls with the Teletext font: 2 expected, %d found" % len(vt_calls))

# ---------------------------------------------------------------- C probe
SIZES = ["VBI_NORMAL_SIZE", "VBI_DOUBLE_WIDTH", "VBI_DOUBLE_HEIGHT", "VBI_DOUBLE_SIZE", "VBI_OVER_TOP", "VBI_OVER_BOTTOM",
         "VBI_DOUBLE_HEIGHT2", "VBI_DOUBLE_SIZE2"]
for lab in [l[0] for l in loops] + [x for c in clips for x in c]:
    if lab not in SIZES:
        die("size label %s not recognised" % lab)
PROBE = r"""
#include <stdio.h>
#include <stddef.h>
#include "src/lang.c"
#include "src/vt.h"
#include "src/cache-priv.h"
#include "src/wstfont2.xbm"
#define N(a) ((int)(sizeof(a)/sizeof((a)[0])))
int main(void){
  vbi_page pg; cache_page cp; int i;
  printf("pageDrcsLen %d\n", N(pg.drcs));
  printf("charsGlyphs %d\n", N(cp.data.drcs.chars));
  printf("charsBytes %d\n", N(cp.data.drcs.chars[0]));
  printf("charsElem %d\n", (int) sizeof(cp.data.drcs.chars[0][0]));
  printf("composedLen %d\n", N(composed));
  printf("wstBytes %d\n", (int) sizeof(wstfont2_bits));
  printf("sizes %d %d %d %d %d %d %d %d\n", VBI_NORMAL_SIZE, VBI_DOUBLE_WIDTH, VBI_DOUBLE_HEIGHT, VBI_DOUBLE_SIZE,
         VBI_OVER_TOP, VBI_OVER_BOTTOM, VBI_DOUBLE_HEIGHT2, VBI_DOUBLE_SIZE2);
  printf("cuSet %d\n", (int) CU_SET);
  printf("cuSubset %d\n", (int) CU_SUBSET);
  printf("unicodeBits %d\n", (int) (sizeof(unsigned int) * 8));
  { vbi_char ch; unsigned long long v; int b = 0; memset(&ch, 0, sizeof ch); ch.unicode = ~0u; v = ch.unicode; while (v) { b++; v >>= 1; }
    printf("charUnicodeBits %d\n", b); }
  printf("composed"); for (i = 0; i < N(composed); i++) printf(" %u", (unsigned) composed[i]); printf("\n");
  return 0;
}
"""
with tempfile.TemporaryDirectory() as td:
    src = os.path.join(td, "probe.c")
    open(src, "w").write(PROBE)
    exe = os.path.join(td, "probe")
    p = subprocess.run(["gcc", "-w", "-D_GNU_SOURCE", "-DHAVE_CONFIG_H", "-DCU_SET=" + cu_set, "-DCU_SUBSET=" + cu_subset,
                        "-I" + REPO, "-I" + os.path.join(REPO, "src"), src, "-o", exe], stdout=subprocess.PIPE, stderr=subprocess.PIPE)
    if p.returncode != 0:
        die("probe does not compile:\n" + p.stderr.decode()[-2000:])
    out = subprocess.run([exe], stdout=subprocess.PIPE).stdout.decode()
P = {}
for line in out.strip().split("\n"):
    k, *v = line.split()
    P[k] = [int(x) for x in v]
if P["charsElem"][0] != 1:
    die("drcs.chars[][] is not a byte array")
SZ = dict(zip(SIZES, P["sizes"]))


def lst(xs):
    return "[" + ", ".join(str(x) for x in xs) + "]"


o = []
w = o.append
w("-- GENERATED by translate/gen_c01gfx.py from src/exp-gfx.c, src/lang.c, src/lang.h, src/teletext.c and a C probe - do not edit")
w("namespace Zvbi.Gen.C01Gfx")
w("")
w("/-! ## exp-gfx.c: cell size, draw_drcs, clip_size, the DRCS call sites -/")
w("def tcw : Nat := %d" % DEF["TCW"])
w("def tch : Nat := %d" % DEF["TCH"])
w("def sizeVals : List Nat := " + lst(P["sizes"]) + "   -- NORMAL, DOUBLE_WIDTH, DOUBLE_HEIGHT, DOUBLE_SIZE, OVER_TOP, OVER_BOTTOM, DOUBLE_HEIGHT2, DOUBLE_SIZE2")
w("/-- `src = font + glyph * N` -/")
w("def glyphStride : Nat := %d" % glyph_stride)
w("/-- one entry per `case` label of draw_drcs: (size, `src +=` in force at the loop, y bound, rows of `rowstride` the canvas")
w("advances per y, x bound, x step, pokes of one inner iteration as (number of `rowstride / canvas_type` terms, constant added to x));")
w("`src++` once per inner iteration; any other size draws nothing (`default: break;`) -/")
w("def drcsLoops : List (Nat × Nat × Nat × Nat × Nat × Nat × List (Nat × Nat)) := [")
w(",\n".join("  (%d, %d, %d, %d, %d, %d, [%s])" % (SZ[l[0]], l[1], l[2], l[3], l[4], l[5], ", ".join("(%d, %d)" % p for p in l[6]))
             for l in loops) + "]")
w("/-- clip_size (size, last_column = TRUE): (from, to); every other size is returned unchanged -/")
w("def clipPairs : List (Nat × Nat) := [" + ", ".join("(%d, %d)" % (SZ[a], SZ[b]) for a, b in clips) + "]")
w("/-- `font = pg->drcs[(unicode >> planeShift) & planeMask]`, `glyph = unicode & glyphMask` (the same at all four call sites) -/")
w("def planeShift : Nat := %d" % plane_shift)
w("def planeMask : Nat := %d" % plane_mask)
w("def glyphMask : Nat := %d" % glyph_mask)
w("def isDrcsMin : Nat := %d     -- lang.h vbi_is_drcs: `unicode >= 0xF000`" % is_drcs_min)
w("def charUnicodeBits : Nat := %d   -- width of the bit field vbi_char.unicode" % P["charUnicodeBits"][0])
w("def penLen : Nat := %d         -- `union { vbi_rgba rgba[N]; uint8_t pal8[N]; } pen`" % pen_len)
w("def penNibbleMax : Nat := 15   -- `*src & 15`, `*src >> 4` of a byte")
w("/-- vbi_draw_vt_page_region: `rowstride = pg->columns * defW * canvas_type; row_adv = rowstride * advH - width * advW * canvas_type` -/")
w("def defW : Nat := %d" % def_w)
w("def advH : Nat := %d" % adv_h)
w("def advW : Nat := %d" % adv_w)
w("/-- extents: vbi_page.drcs[], cache_page.data.drcs.chars[][] (bytes) -/")
w("def pageDrcsLen : Nat := %d" % P["pageDrcsLen"][0])
w("def charsGlyphs : Nat := %d" % P["charsGlyphs"][0])
w("def charsBytes : Nat := %d" % P["charsBytes"][0])
w("/-- teletext.c enhance() mode 0x0D: `unicode = drcsBase + (page << drcsShift) + offset` -/")
w("def drcsBase : Nat := %d" % drcs_base)
w("def drcsShift : Nat := %d" % drcs_shift)
w("")
w("/-! ## lang.c vbi_teletext_composed_unicode and its call in enhance() -/")
w("def cuAccentMax : Nat := %d    -- `assert (a <= 15)`" % cu_amax)
w("def cuCharLo : Nat := %d" % cu_clo)
w("def cuCharHi : Nat := %d" % cu_chi)
w("def cuStar : Nat := %d         -- `if (c == 0x2A) return 0x0040u;`" % cu_star)
w("def cuAt : Nat := %d" % cu_at)
w("def cuSet : Nat := %d          -- %s" % (P["cuSet"][0], cu_set))
w("def cuSubset : Nat := %d       -- %s" % (P["cuSubset"][0], cu_subset))
w("def cuShift : Nat := %d        -- `c += a << 12`" % cu_shift)
w("def cuBase : Nat := %d        -- `return 0x00C0u + i`" % cu_base)
w("def composedLen : Nat := %d" % P["composedLen"][0])
w("def composed : List Nat := " + lst(P["composed"]))
w("/-- `case lo ... hi: if (p->data >= guard) ... vbi_teletext_composed_unicode (p->mode - sub, p->data)` -/")
w("def cuCallLo : Nat := %d" % call_lo)
w("def cuCallHi : Nat := %d" % call_hi)
w("def cuCallGuard : Nat := %d" % call_guard)
w("def cuCallSub : Nat := %d" % call_sub)
w("")
w("/-! ## exp-gfx.c unicode_wstfont2 (literals in source order, the function's shape is fixed by the translator) and the font side of draw_char -/")
w("def uwSpecials : List Nat := " + lst(uw[0:41]))
w("def uwInvalid : Nat := %d" % uw[41])
for k in range(42, 97):
    w("def uwN%d : Nat := %d" % (k, uw[k]))
w("def tcpl : Nat := %d          -- TCPL = wstfont2_width / TCW * wstfont2_height / TCH" % tcpl)
w("def wstBytes : Nat := %d     -- sizeof (wstfont2_bits)" % P["wstBytes"][0])
w("/-- `src = font + (x >> dcShift)`, `src += cpl * cw / dcDiv * ch / dcHalf`, `ch >>= dcChShift`, `src[a] * 256 + src[b]`, `src += cpl * cw / dcDiv2` -/")
w("def dcShift : Nat := %d" % dc[5])
w("def dcDiv : Nat := %d" % dc[6])
w("def dcHalf : Nat := %d" % dc[7])
w("def dcChShift : Nat := %d" % dc[9])
w("def dcSrcIdx : List Nat := " + lst([dc[14], dc[16]]))
w("def dcDiv2 : Nat := %d" % dc[44])
w("/-- the canvas side of draw_char with cw = TCW, ch = TCH, in the format of `drcsLoops` (one entry per `case` label of the inner")
w("switch; y bound = `ch` after `ch >>= 1` for the half height variants; `x++` resp. `x += N`); other sizes poke nothing -/")
cl = [("VBI_NORMAL_SIZE", DEF["TCH"], 1, DEF["TCW"], 1, [(0, 0)]),
      ("VBI_DOUBLE_HEIGHT", DEF["TCH"] >> dc[9], dc[26], DEF["TCW"], 1, [(0, 0), (1, 0)]),
      ("VBI_DOUBLE_HEIGHT2", DEF["TCH"] >> dc[9], dc[26], DEF["TCW"], 1, [(0, 0), (1, 0)]),
      ("VBI_DOUBLE_WIDTH", DEF["TCH"], 1, DEF["TCW"] * dc[28], dc[30], [(0, dc[32]), (0, dc[33])]),
      ("VBI_DOUBLE_SIZE", DEF["TCH"] >> dc[9], dc[43], DEF["TCW"] * dc[35], dc[37], [(0, dc[39]), (0, dc[40]), (1, dc[41]), (1, dc[42])]),
      ("VBI_DOUBLE_SIZE2", DEF["TCH"] >> dc[9], dc[43], DEF["TCW"] * dc[35], dc[37], [(0, dc[39]), (0, dc[40]), (1, dc[41]), (1, dc[42])])]
w("def charLoops : List (Nat × Nat × Nat × Nat × Nat × Nat × List (Nat × Nat)) := [")
w(",\n".join("  (%d, 0, %d, %d, %d, %d, [%s])" % (SZ[l[0]], l[1], l[2], l[3], l[4], ", ".join("(%d, %d)" % p for p in l[5])) for l in cl) + "]")
w("/-- draw_blank (..., TCW, TCH): `for (y < ch) { for (x < cw) poke (canvas, x, color); canvas += rowstride; }` -/")
w("def blankLoop : Nat × Nat × Nat × Nat × Nat × Nat × List (Nat × Nat) := (0, 0, %d, 1, %d, 1, [(0, 0)])" % (DEF["TCH"], DEF["TCW"]))
w("/-- sizes whose `case` labels precede `src += ...` (lower halves) / `ch >>= 1` (all half height variants) -/")
w("def dcLowerSizes : List Nat := " + lst([SZ["VBI_DOUBLE_HEIGHT2"], SZ["VBI_DOUBLE_SIZE2"]]))
w("def dcHalfSizes : List Nat := " + lst([SZ["VBI_DOUBLE_HEIGHT2"], SZ["VBI_DOUBLE_SIZE2"], SZ["VBI_DOUBLE_HEIGHT"], SZ["VBI_DOUBLE_SIZE"]]))
w("")
w("end Zvbi.Gen.C01Gfx")
text = "\n".join(o) + "\n"
if not os.path.exists(OUT) or open(OUT).read() != text:
    open(OUT, "w").write(text)
