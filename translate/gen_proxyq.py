#!/usr/bin/env python3
"""Translator for component `proxyq` (C18): constants, extents, message sizes and four source-shape
facts of daemon/proxyd.c -> lean/ZvbiModel/Generated/ProxyQLayout.lean (written only when changed).

1. A C probe that `#include`s daemon/proxyd.c (so the file-local #defines, enums and struct types are
   visible) is compiled against /repo's current tree and prints the numbers the model uses.
2. Five textual facts are read from the source, because the model branches on them and most of them
   are the sites of the defects C18 found (the proposed repairs change exactly these texts):
     assertLineCountStrict  forward_data asserts `line_count <  max_lines` (true) or `<=` (false)
     forceFreeLiveHead      force_free compares every client with the *live* `p_proxy_dev->p_sliced`
                            (true) or with the head saved before the loop (false)
     filterBoundsInput      send_sliced bounds the *input* index by the client's line count (true)
                            or the number of lines copied (false)
     destroyStopsFirst      vbi_proxyd_destroy frees the queue before closing the clients (true)
     updReleasesLostGrant   vbi_proxyd_update_services releases the queue of a client whose grant became
                            empty (true: the repair of defect D7) or does not touch the queue (false)
   Any other shape of these four places makes the translator fail (the check then reports it).
The harness prints the same numbers from the compiled daemon (`consts` op) and the check compares.
"""
import os, re, subprocess, sys, tempfile

REPO = os.environ.get("ZVBI_REPO", "/repo")
HERE = os.path.dirname(os.path.abspath(__file__))
OUT = os.path.join(HERE, "..", "lean", "ZvbiModel", "Generated", "ProxyQLayout.lean")

PROBE = r'''
#define main static __attribute__((unused)) zvbid_probe_main
#include "daemon/proxyd.c"
#undef main
#include <stddef.h>
int main(void){
 printf("srvQueueBufferCount %d\n", (int) SRV_QUEUE_BUFFER_COUNT);
 printf("vbiMaxBufferCount %d\n", (int) VBI_MAX_BUFFER_COUNT);
 printf("defaultBufferCount %d\n", (int) DEFAULT_BUFFER_COUNT);
 printf("defaultMaxClients %d\n", (int) DEFAULT_MAX_CLIENTS);
 printf("srvMaxDevices %d\n", (int) SRV_MAX_DEVICES);
 printf("minStrictNeg %d\n", (int) -(VBI_MIN_STRICT));
 printf("maxStrict %d\n", (int) VBI_MAX_STRICT);
 printf("nStrict %d\n", (int) (sizeof(((PROXY_CLNT*)0)->services)/sizeof(((PROXY_CLNT*)0)->services[0])));
 printf("bufferCountMod %llu\n", 1ULL << (8 * sizeof(((VBIPROXY_CONNECT_REQ*)0)->buffer_count)));
 printf("rawServices %u\n", (unsigned) (VBI_SLICED_VBI_625 | VBI_SLICED_VBI_525));
 printf("slicedSize %d\n", (int) sizeof(vbi_sliced));
 printf("slicedDataSize %d\n", (int) sizeof(((vbi_sliced*)0)->data));
 printf("hdrSize %d\n", (int) sizeof(VBIPROXY_MSG_HEADER));
 printf("slicedIndBase %d\n", (int) VBIPROXY_SLICED_IND_SIZE(0,0));
 printf("connectCnfSize %d\n", (int) sizeof(VBIPROXY_CONNECT_CNF));
 printf("connectRejSize %d\n", (int) sizeof(VBIPROXY_CONNECT_REJ));
 printf("serviceCnfSize %d\n", (int) sizeof(VBIPROXY_SERVICE_CNF));
 printf("serviceRejSize %d\n", (int) sizeof(VBIPROXY_SERVICE_REJ));
 printf("chnChangeIndSize %d\n", (int) sizeof(VBIPROXY_CHN_CHANGE_IND));
 printf("chnNorm %d\n", (int) VBI_PROXY_CHN_NORM);
 printf("chnFlush %d\n", (int) VBI_PROXY_CHN_FLUSH);
 printf("noStatusInd %d\n", (int) VBI_PROXY_CLIENT_NO_STATUS_IND);
 printf("stWaitConReq %d\n", (int) REQ_STATE_WAIT_CON_REQ);
 printf("stWaitClose %d\n", (int) REQ_STATE_WAIT_CLOSE);
 printf("stForward %d\n", (int) REQ_STATE_FORWARD);
 printf("stClosed %d\n", (int) REQ_STATE_CLOSED);
 printf("apiUnknown %d\n", (int) VBI_API_UNKNOWN);
 printf("apiV4l2 %d\n", (int) VBI_API_V4L2);
 return 0;}
'''

NAMES = ["srvQueueBufferCount", "vbiMaxBufferCount", "defaultBufferCount", "defaultMaxClients", "srvMaxDevices",
         "minStrictNeg", "maxStrict", "nStrict", "bufferCountMod", "rawServices", "slicedSize", "slicedDataSize",
         "hdrSize", "slicedIndBase", "connectCnfSize", "connectRejSize", "serviceCnfSize", "serviceRejSize",
         "chnChangeIndSize", "chnNorm", "chnFlush", "noStatusInd", "stWaitConReq", "stWaitClose", "stForward",
         "stClosed", "apiUnknown", "apiV4l2"]


def strip_comments(s):
    s = re.sub(r"/\*.*?\*/", " ", s, flags=re.S)
    return re.sub(r"//[^\n]*", " ", s)


def func_body(src, name):
    m = re.search(r"\n(?:static\s+)?[\w \*]+?\b" + name + r"\s*\([^)]*\)\s*\{", src)
    if not m:
        raise SystemExit("gen_proxyq: function %s not found in daemon/proxyd.c" % name)
    i = m.end()
    depth = 1
    while depth and i < len(src):
        c = src[i]
        if c == "{":
            depth += 1
        elif c == "}":
            depth -= 1
        i += 1
    return re.sub(r"\s+", " ", src[m.end():i - 1])


def shape_facts():
    src = strip_comments(open(os.path.join(REPO, "daemon", "proxyd.c")).read())
    facts = {}
    fd = func_body(src, "vbi_proxyd_forward_data")
    m = re.search(r"assert\s*\(\s*p_buf->line_count\s*(<=|<)\s*p_buf->max_lines\s*\)", fd)
    if not m:
        raise SystemExit("gen_proxyq: the line_count assertion of vbi_proxyd_forward_data has an unknown shape")
    facts["assertLineCountStrict"] = (m.group(1) == "<")
    # the eligibility test of forward_data is what the model's `subscribed` transcribes
    if not re.search(r"\(\s*req->dev_idx == dev_idx\s*\)\s*&&\s*\(\s*req->state == REQ_STATE_FORWARD\s*\)\s*&&\s*"
                     r"\(\s*req->all_services != 0\s*\)\s*\)\s*\{\s*p_buf->ref_count \+= 1;\s*"
                     r"if \(req->p_sliced == NULL\) req->p_sliced = p_buf;", fd):
        raise SystemExit("gen_proxyq: the reference loop of vbi_proxyd_forward_data has an unknown shape")
    ff = func_body(src, "vbi_proxy_queue_force_free")
    if re.search(r"if \(req->p_sliced == p_proxy_dev->p_sliced\) \{ vbi_proxy_queue_release_sliced\(req\); \}", ff):
        facts["forceFreeLiveHead"] = True
    elif re.search(r"p_head = p_proxy_dev->p_sliced;", ff) and \
            re.search(r"if \(req->p_sliced == p_head\) \{ vbi_proxy_queue_release_sliced\(req\); \}", ff):
        facts["forceFreeLiveHead"] = False
    else:
        raise SystemExit("gen_proxyq: the release loop of vbi_proxy_queue_force_free has an unknown shape")
    ss = func_body(src, "vbi_proxyd_send_sliced")
    if re.search(r"for \(idx = 0; \(idx < req->p_sliced->line_count\) && \(idx < max_lines\); idx\+\+\)", ss):
        facts["filterBoundsInput"] = True
    elif re.search(r"for \(idx = 0; \(idx < req->p_sliced->line_count\) && "
                   r"\(\(int\) p_msg->body\.sliced_ind\.sliced_lines < max_lines\); idx\+\+\)", ss):
        facts["filterBoundsInput"] = False
    else:
        raise SystemExit("gen_proxyq: the filter loop of vbi_proxyd_send_sliced has an unknown shape")
    if not re.search(r"if \(\(req->p_sliced->lines\[idx\]\.id & req->all_services\) != 0\)", ss):
        raise SystemExit("gen_proxyq: the service test of vbi_proxyd_send_sliced has an unknown shape")
    rs = func_body(src, "vbi_proxy_queue_release_sliced")
    if not re.search(r"if \(p_buf->ref_count > 0\) p_buf->ref_count -= 1; if \(p_buf->ref_count == 0\) \{ "
                     r"assert\(p_proxy_dev->p_sliced == p_buf\);", rs):
        raise SystemExit("gen_proxyq: vbi_proxy_queue_release_sliced has an unknown shape")
    us = func_body(src, "vbi_proxyd_update_services")
    if re.search(r"if \(req->all_services == 0\) \{ pthread_mutex_lock\(&p_proxy_dev->queue_mutex\); "
                 r"while \(req->p_sliced != NULL\) vbi_proxy_queue_release_sliced\(req\); "
                 r"pthread_mutex_unlock\(&p_proxy_dev->queue_mutex\); \}", us):
        facts["updReleasesLostGrant"] = True
    elif "vbi_proxy_queue_release_sliced" in us or "p_sliced" in us:
        raise SystemExit("gen_proxyq: vbi_proxyd_update_services touches the queue in an unknown way")
    else:
        facts["updReleasesLostGrant"] = False
    ds = func_body(src, "vbi_proxyd_destroy")
    i_stop = ds.find("vbi_proxy_stop_acquisition")
    i_close = ds.find("vbi_proxyd_close")
    if i_stop < 0 or i_close < 0:
        raise SystemExit("gen_proxyq: vbi_proxyd_destroy has an unknown shape")
    facts["destroyStopsFirst"] = i_stop < i_close
    return facts


def probe_values():
    with tempfile.TemporaryDirectory() as td:
        c = os.path.join(td, "probe.c")
        exe = os.path.join(td, "probe")
        open(c, "w").write(PROBE)
        # the daemon's own main becomes an unused static function, so at -O1 every (static) function of
        # proxyd.c is discarded and the probe links without libzvbi
        cmd = ["gcc", "-std=gnu99", "-D_GNU_SOURCE", "-DHAVE_CONFIG_H", "-D_REENTRANT", "-w", "-O1",
               "-I" + REPO, "-I" + os.path.join(REPO, "src"), "-I" + os.path.join(REPO, "daemon"),
               c, "-o", exe, "-lpthread"]
        p = subprocess.run(cmd, stdout=subprocess.PIPE, stderr=subprocess.PIPE)
        if p.returncode != 0:
            raise SystemExit("gen_proxyq: probe does not compile:\n" + p.stderr.decode()[-2000:])
        p = subprocess.run([exe], stdout=subprocess.PIPE, stderr=subprocess.PIPE)
        if p.returncode != 0:
            raise SystemExit("gen_proxyq: probe failed: " + p.stderr.decode()[-500:])
        vals = {}
        for line in p.stdout.decode().split("\n"):
            w = line.split()
            if len(w) == 2:
                vals[w[0]] = int(w[1])
        for n in NAMES:
            if n not in vals:
                raise SystemExit("gen_proxyq: probe did not print " + n)
        return vals


def main():
    vals = probe_values()
    facts = shape_facts()
    out = ["/-! generated by translate/gen_proxyq.py from daemon/proxyd.c, src/proxy-msg.h - do not edit -/",
           "namespace Zvbi.Gen.ProxyQ", ""]
    for n in NAMES:
        out.append("def %s : Nat := %d" % (n, vals[n]))
    out.append("")
    for n in ("assertLineCountStrict", "forceFreeLiveHead", "filterBoundsInput", "destroyStopsFirst", "updReleasesLostGrant"):
        out.append("def %s : Bool := %s" % (n, "true" if facts[n] else "false"))
    out += ["", "end Zvbi.Gen.ProxyQ", ""]
    text = "\n".join(out)
    if not os.path.exists(OUT) or open(OUT).read() != text:
        os.makedirs(os.path.dirname(OUT), exist_ok=True)
        open(OUT, "w").write(text)
        print("gen_proxyq: wrote", os.path.relpath(OUT, os.path.join(HERE, "..")))


if __name__ == "__main__":
    main()
