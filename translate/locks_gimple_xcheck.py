#!/usr/bin/env python3
"""C20: mechanical cross-check of the lock extractor (translate/gen_locks.py) against the compiler.

Nothing in /repo is instrumented.  The scope files are compiled with `gcc -O0 -fdump-tree-gimple-lineno`
(same defines as the extractor's `gcc -E`), and for every C function that the extractor inlined into a
role graph this script derives from the GIMPLE text, by means that share no code with the extractor's
tokeniser / statement parser / name-based pointer provenance:

  * the ORDERED list of pthread_mutex_lock / unlock / trylock calls with source line and mutex
    (the mutex from the address expression that defines the argument temporary);
  * the set of shared fields WRITTEN by the function's own statements: stores whose base pointer has a
    declared type that lives in a shared object (`struct cc_channel *`, `struct caption *`,
    `struct vbi_decoder *`, `struct vbi_raw_decoder *`, `struct _vbi3_raw_decoder *`, ...), or is a
    temporary defined from such a pointer (address-of, pointer arithmetic, load of one of the few
    pointer-valued members), or an opaque pointer parameter whose actual arguments point there
    (propagated over the GIMPLE call graph); plus destinations of memcpy/memset/... and non-const
    arguments of the summarised raw_decoder.c / sampling_par.c functions (same convention as the
    extractor: this is modelling, not extraction);
  * indirect calls through `->handler` (callouts) with their source line;
  * direct calls to functions defined in the scope files.

These are compared with `.cache/locks_table.json` `per_function`, which gen_locks.py records while it
builds the graphs.  Differences:
  * a lock call, written field, callout or call that the compiler sees and the extractor does not, a
    lock call / callout the extractor has and the compiler does not, a different order or mutex or
    line of the lock calls, a write the extractor has and the compiler does not  ->  BROKEN TIE, exit 1,
    one line per function:  `locks_gimple_xcheck: BROKEN TIE <function>: ...`;
  * a call only the extractor has is tolerated when the compiler folded it away (`if (0) dump(...)`):
    over-approximation, listed as a note.

Fast (< 3 s); result cached by the hash of sources + both scripts in .cache/locks_gimple_xcheck.json.
"""
import hashlib, json, os, re, subprocess, sys, tempfile

sys.path.insert(0, os.path.dirname(os.path.abspath(__file__)))
import gen_locks as GL      # only the fixed field list / conventions: VAR_OF, MUTEX_LOC, file lists, extern conventions

VERIF = GL.VERIF
REPO = GL.REPO
SIDE = GL.SIDE
OUT = os.path.join(VERIF, ".cache", "locks_gimple_xcheck.json")

# declared pointee type -> region (root, path); the data-structure facts this check relies on
TYPE_REGION = {
    "struct vbi_decoder": ("vbi", ()),
    "struct caption": ("vbi", ("cc",)),
    "struct cc_channel": ("vbi", ("cc", "channel")),
    "struct xds_sub_packet": ("vbi", ("cc", "sub_packet")),
    "struct vbi_raw_decoder": ("rd", ()),
    "struct _vbi3_raw_decoder": ("rd3", ()),
    "struct vbi3_raw_decoder": ("rd3", ()),
    "struct event_handler": ("ehnode", ()),
    "struct vbi_network": ("vbi", ("network",)),
}
# only inside caption.c: caption pages and their characters live in vbi->cc.channel[]
TYPE_REGION_FILE = {"caption.c": {"struct vbi_page": ("vbi", ("cc", "channel")), "struct vbi_char": ("vbi", ("cc", "channel"))}}
# pointer-valued members: what a loaded pointer points to
LOADED_PTR = {"line": ("vbi", ("cc", "channel")), "pattern": ("rd3", ()), "curr_sp": ("vbi", ("cc", "sub_packet")),
              "handlers": ("ehnode", ()), "next_handler": ("ehnode", ()), "next": ("ehnode", ())}
# parameters of API functions that are caller-owned memory although their type says otherwise
USER_PARAMS = {("vbi_fetch_cc_page", "pg")}

LOC = re.compile(r"\[[^\]\s]*:(\d+):\d+\] ?")
IDENT = r"[A-Za-z_][\w.]*"


def gimple(fn, tmp):
    cmd = ["gcc", "-std=gnu99", "-D_GNU_SOURCE", "-DHAVE_CONFIG_H", "-D_REENTRANT", "-DZVBI_VERIF", "-O0", "-w",
           "-I" + REPO, "-I" + os.path.join(REPO, "src"), "-fdump-tree-gimple-lineno", "-c",
           os.path.join(REPO, "src", fn), "-o", os.path.join(tmp, fn + ".o"), "-dumpdir", tmp + os.sep]
    p = subprocess.run(cmd, stdout=subprocess.PIPE, stderr=subprocess.PIPE)
    if p.returncode != 0:
        sys.exit("locks_gimple_xcheck: gcc failed on %s: %s" % (fn, p.stderr.decode()[-600:]))
    d = [x for x in os.listdir(tmp) if x.startswith(fn + ".") and x.endswith(".gimple")]
    if not d:
        sys.exit("locks_gimple_xcheck: no GIMPLE dump for %s" % fn)
    return open(os.path.join(tmp, d[0]), errors="replace").read()


class GFunc:
    def __init__(self, name, file, params):
        self.name, self.file, self.params = name, file, params     # params: list of (type, name)
        self.decls = {}          # var -> type string
        self.deffile = None      # file that contains the body (headers define inline functions)
        self.stmts = []          # (line, text)


def split_top(s, sep=","):
    out, cur, d = [], "", 0
    for ch in s:
        if ch in "([{":
            d += 1
        elif ch in ")]}":
            d -= 1
        if ch == sep and d == 0:
            out.append(cur.strip())
            cur = ""
        else:
            cur += ch
    if cur.strip():
        out.append(cur.strip())
    return out


def parse_gimple(text, file):
    funcs = {}
    cur = None
    for raw in text.split("\n"):
        m0 = LOC.search(raw)
        line = int(m0.group(1)) if m0 else 0
        s = LOC.sub("", raw)
        if cur is not None and cur.deffile is None and s.strip() == "{":
            fm = re.search(r"\[([^\]\s]*):\d+:\d+\]", raw)
            cur.deffile = os.path.basename(fm.group(1)) if fm else "?"
            continue
        if cur is None:
            m = re.match(r"^(?:[\w\s\*]+?[\s\*])?(%s) \((.*)\)$" % IDENT, s)
            if m and not s.startswith(" ") and not s.startswith("__attribute__"):
                params = []
                for p in split_top(m.group(2)):
                    pm = re.match(r"^(.*?)(%s)$" % IDENT, p)
                    if pm and p != "void":
                        params.append((pm.group(1).strip(), pm.group(2)))
                cur = GFunc(m.group(1), file, params)
            continue
        if s == "}":
            funcs[cur.name] = cur
            cur = None
            continue
        t = s.strip()
        if not t or t in ("{", "}") or t.startswith("//"):
            continue
        dm = re.match(r"^((?:const |volatile |static |register )*(?:struct |union |enum )?%s(?: %s)*?(?: \*+| ))(%s)(\[[^\]]*\])*;$" % (IDENT, IDENT, IDENT), t)
        if dm and "=" not in t and not t.startswith(("return", "goto")):
            cur.decls[dm.group(2)] = dm.group(1).strip() + ("[]" if dm.group(3) else "")
            continue
        cur.stmts.append((line, t))
    return funcs


def pointee(ty):
    """'const struct cc_channel *' -> 'struct cc_channel' ; None when not a single-level pointer to a named type"""
    ty = re.sub(r"\b(const|volatile|restrict|__restrict)\b", "", ty).strip()
    m = re.match(r"^(.*?)\s*\*$", ty)
    if not m:
        return None
    return re.sub(r"\s+", " ", m.group(1)).strip()


def fields_of(ref):
    """'->a.b[i].c' -> ['a','b','c']"""
    out = []
    d = 0
    for m in re.finditer(r"\[|\]|(?:->|\.)(%s)" % r"[A-Za-z_]\w*", ref):
        if m.group(0) == "[":
            d += 1
        elif m.group(0) == "]":
            d -= 1
        elif d == 0:
            out.append(m.group(1))
    return out


def var_of(loc):
    return GL.var_of(loc)


class Analysis:
    def __init__(self, funcs, summary_consts):
        self.funcs = funcs
        self.summary_consts = summary_consts
        self.param_extra = {}        # (fn, param) -> set of regions from call sites
        self.res = {}

    def type_region(self, f, ty):
        pt = pointee(ty)
        if pt is None:
            return None
        if pt in TYPE_REGION:
            return TYPE_REGION[pt]
        return TYPE_REGION_FILE.get(f.file, {}).get(pt)

    def mem_ref(self, expr):
        """memory reference through a pointer -> (base var, [fields]) or None"""
        e = expr.strip()
        m = re.match(r"^MEM(?: <[^>]*>)? ?\[\(([^)]*)\)\s*(&?%s)(?: \+ [^\]]*)?\](.*)$" % IDENT, e)
        if m:
            return m.group(2).lstrip("&"), fields_of(m.group(3))
        m = re.match(r"^\(\*(%s)\)(.*)$" % IDENT, e)
        if m:
            return m.group(1), fields_of(m.group(2))
        m = re.match(r"^\*(%s)(.*)$" % IDENT, e)
        if m:
            return m.group(1), fields_of(m.group(2))
        m = re.match(r"^(%s)(->.*)$" % IDENT, e)
        if m:
            return m.group(1), fields_of(m.group(2))
        return None

    def regions_of_expr(self, f, env, e):
        """regions an expression points to when used as a pointer value"""
        e = e.strip()
        m = re.match(r"^\((?:[^()]|\([^()]*\))*\)\s*(.+)$", e)       # cast
        if m and not e.startswith("(*"):
            return self.regions_of_expr(f, env, m.group(1))
        if e.startswith("&"):
            inner = e[1:].strip()
            mr = self.mem_ref(inner)
            if mr:
                base, flds = mr
                return {(r, tuple(p) + tuple(flds)) for (r, p) in env.get(base, ())}
            return set()
        m = re.match(r"^(%s) (?:\+|-) (.+)$" % IDENT, e)
        if m:
            return set(env.get(m.group(1), ())) | self.regions_of_expr(f, env, m.group(2))
        if re.match(r"^%s$" % IDENT, e):
            return set(env.get(e, ()))
        mr = self.mem_ref(e)
        if mr:                                   # load of a pointer-valued member
            base, flds = mr
            if flds and env.get(base):
                last = flds[-1]
                if last == "vbi" and any(r == "vbi" and p[:1] == ("cc",) for (r, p) in env[base]):
                    return {("vbi", ())}                   # vbi_page.vbi back pointer of a caption page
                if last in LOADED_PTR:
                    return {LOADED_PTR[last]}
        return set()

    def analyse(self, f):
        env = {}
        for ty, nm in f.params:
            r = self.type_region(f, ty)
            if (f.name, nm) in USER_PARAMS:
                r = None
            s = set([r]) if r else set()
            s |= self.param_extra.get((f.name, nm), set())
            if (f.name, nm) in USER_PARAMS:
                s = set()
            env[nm] = s
        for nm, ty in f.decls.items():
            r = self.type_region(f, ty)
            env[nm] = set([r]) if r else set()
        defs = {}
        locks, writes, callouts, calls = [], set(), set(), set()
        for rnd in range(3):                     # pointer values flow around loops: iterate
            locks, writes, callouts, calls = [], set(), set(), set()
            for line, t in f.stmts:
                if not t.endswith(";") or t.startswith(("goto ", "return", "if ", "switch ", "case ", "default", "<")):
                    continue
                body = t[:-1]
                lhs, rhs = None, body
                am = re.match(r"^(.*?) = (.*)$", body)
                cm0 = re.match(r"^(&?%s) \((.*)\)$" % IDENT, body)
                if am and not cm0:
                    lhs, rhs = am.group(1), am.group(2)
                if "{CLOBBER" in rhs:
                    continue
                cm = re.match(r"^(%s) \((.*)\)$" % IDENT, rhs)
                if cm and not re.match(r"^\(", rhs):
                    callee, args = cm.group(1), split_top(cm.group(2))
                    callee = re.sub(r"^__builtin_", "", callee)
                    callee = re.sub(r"^__(\w+)_chk$", r"\1", callee)
                    argr = [self.regions_of_expr(f, env, a) for a in args]
                    if callee.startswith("pthread_mutex_") and callee[14:] in ("lock", "unlock", "trylock"):
                        ms = {GL.MUTEX_LOC.get((r, tuple(p))) for (r, p) in (argr[0] if argr else ())}
                        ms.discard(None)
                        locks.append([line, callee[14:], sorted(ms)[0] if len(ms) == 1 else "?%s" % sorted(ms)])
                    elif callee in f.decls or re.match(r"^_\d+$", callee) or callee in dict((n, t_) for t_, n in f.params):
                        d = defs.get(callee, "")
                        if re.search(r"(->|\.)handler$", d):
                            callouts.add(line)
                        else:
                            callouts.add(-line)          # indirect call that is not a handler: reported
                    else:
                        if callee in self.funcs or callee in self.summary_consts:
                            calls.add(callee)
                        if callee in self.funcs:
                            g = self.funcs[callee]
                            for idx, rs in enumerate(argr):
                                if idx < len(g.params) and rs:
                                    key = (callee, g.params[idx][1])
                                    if self.type_region(g, g.params[idx][0]) is None:
                                        self.param_extra.setdefault(key, set()).update(rs)
                        elif callee not in GL.PURE_EXTERN:
                            consts = self.summary_consts.get(callee)
                            for idx, rs in enumerate(argr):
                                for loc in rs:
                                    v = var_of(loc)
                                    if v is None:
                                        continue
                                    if consts is not None:
                                        w = not (idx < len(consts) and consts[idx])
                                    elif callee in GL.WRITE_FIRST_ARG:
                                        w = idx == 0
                                    else:
                                        w = True
                                    if not w:
                                        continue
                                    if loc[0] == "rd" and loc[1] == ():
                                        writes.update(["rd.par", "rd.start", "rd.count", "rd.pattern"])
                                    else:
                                        writes.add(v)
                    if lhs is None:
                        continue
                    rhs_regions = set()
                else:
                    rhs_regions = self.regions_of_expr(f, env, rhs) if lhs is not None else set()
                if lhs is None:
                    continue
                if re.match(r"^%s$" % IDENT, lhs):
                    defs[lhs] = rhs
                    if rhs_regions:
                        env.setdefault(lhs, set()).update(rhs_regions)
                    continue
                mr = self.mem_ref(lhs)
                if mr:
                    base, flds = mr
                    for (r, p) in env.get(base, ()):
                        v = var_of((r, tuple(p) + tuple(flds)))
                        if v:
                            writes.add(v)
        return {"locks": locks, "writes": sorted(writes), "callouts": sorted(callouts), "calls": sorted(calls)}

    def run(self, names):
        for _ in range(4):           # parameter regions flow down the call graph
            before = json.dumps({"%s/%s" % k: sorted(v) for k, v in self.param_extra.items()}, sort_keys=True)
            for n in self.funcs:
                self.res[n] = self.analyse(self.funcs[n])
            after = json.dumps({"%s/%s" % k: sorted(v) for k, v in self.param_extra.items()}, sort_keys=True)
            if before == after:
                break
        return {n: self.res[n] for n in names if n in self.res}


def input_hash():
    h = hashlib.sha256(open(os.path.abspath(__file__), "rb").read())
    h.update(GL.input_hash().encode())
    return h.hexdigest()


def main():
    if not os.path.exists(SIDE):
        sys.exit("locks_gimple_xcheck: %s missing (run translate/gen_locks.py first)" % SIDE)
    side = json.load(open(SIDE))
    ih = input_hash()
    if side.get("input_sha256") != GL.input_hash():
        sys.exit("locks_gimple_xcheck: %s is stale (run translate/gen_locks.py first)" % SIDE)
    try:
        old = json.load(open(OUT))
        if old.get("input") == ih:
            for l in old["lines"]:
                print(l)
            print("locks_gimple_xcheck: cached result")
            sys.exit(1 if old["broken"] else 0)
    except (OSError, ValueError, KeyError):
        pass
    funcs, summary_consts = {}, {}
    with tempfile.TemporaryDirectory(prefix="lgx") as tmp:
        header_funcs = {}
        for fn in GL.INLINE_FILES:
            for n, f in parse_gimple(gimple(fn, tmp), fn).items():
                if f.deffile == fn:
                    funcs.setdefault(n, f)
                else:
                    f.file = fn
                    header_funcs.setdefault(n, f)    # static inline functions of the headers
        for fn in GL.SUMMARY_FILES:
            txt = gimple(fn, tmp)
            if "pthread_mutex_" in txt:
                sys.exit("locks_gimple_xcheck: BROKEN TIE %s: a summarised file calls pthread_mutex_*" % fn)
            for n, f in parse_gimple(txt, fn).items():
                summary_consts[n] = [("const" in ty.split() and "*" in ty) for ty, _ in f.params]
    per = side["per_function"]
    an = Analysis(funcs, summary_consts)
    got = an.run(list(per.keys()))
    lines, broken, notes = [], 0, 0
    # inline functions defined in headers are outside the extractor's scope: they must have no effect
    hn = Analysis(dict(header_funcs), summary_consts)
    for n, r in sorted(hn.run(list(header_funcs.keys())).items()):
        if r["locks"] or r["writes"] or r["callouts"]:
            lines.append("locks_gimple_xcheck: BROKEN TIE %s: header function with effects the extractor does not model: %s" % (n, r))
            broken += 1
    nlocks = nwrites = ncallouts = ncalls = 0
    for name in sorted(per):
        ex = per[name]
        if name not in got:
            if ex["locks"] or ex["writes"] or ex["callouts"]:
                lines.append("locks_gimple_xcheck: BROKEN TIE %s: function of the role graphs not found in the GIMPLE dumps" % name)
                broken += 1
            else:
                lines.append("locks_gimple_xcheck: note %s: discarded by the compiler (unreferenced static function without effects)" % name)
                notes += 1
            continue
        gi = got[name]
        probs = []
        if gi["locks"] != ex["locks"]:
            probs.append("lock calls differ: compiler %s, extractor %s" % (gi["locks"], ex["locks"]))
        gw, ew = set(gi["writes"]), set(ex["writes"])
        if gw - ew:
            probs.append("shared fields written according to the compiler but not the extractor: %s" % sorted(gw - ew))
        if ew - gw:
            probs.append("shared fields written according to the extractor but not the compiler: %s" % sorted(ew - gw))
        if sorted(gi["callouts"]) != sorted(ex["callouts"]):
            probs.append("callouts differ: compiler %s, extractor %s" % (gi["callouts"], ex["callouts"]))
        gc, ec = set(gi["calls"]), set(ex["calls"])
        if gc - ec:
            probs.append("calls into the scope files the extractor does not have: %s" % sorted(gc - ec))
        if ec - gc:
            lines.append("locks_gimple_xcheck: note %s: calls only in the extractor (folded away by the compiler): %s" % (name, sorted(ec - gc)))
            notes += 1
        nlocks += len(gi["locks"]); nwrites += len(gw); ncallouts += len(gi["callouts"]); ncalls += len(gc)
        if probs:
            broken += 1
            lines.append("locks_gimple_xcheck: BROKEN TIE %s: %s" % (name, "; ".join(probs)))
    lines.append("locks_gimple_xcheck: %d functions compared, %d lock calls, %d written fields, %d callouts, %d calls; broken=%d notes=%d"
                 % (len(per), nlocks, nwrites, ncallouts, ncalls, broken, notes))
    os.makedirs(os.path.dirname(OUT), exist_ok=True)
    json.dump({"input": ih, "lines": lines, "broken": broken, "functions": len(per), "lock_calls": nlocks,
               "written_fields": nwrites, "callouts": ncallouts, "calls": ncalls, "notes": notes,
               "compiler": got}, open(OUT, "w"), indent=1)
    for l in lines:
        print(l)
    sys.exit(1 if broken else 0)


if __name__ == "__main__":
    main()
