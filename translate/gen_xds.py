#!/usr/bin/env python3
"""Translator for component `xds` (C09): extents, guard constants and two control-flow facts of
the XDS demultiplexers, read from the *current* source text of /repo.

  src/xds_demux.h   buffer[..] of _vbi_xds_subpacket and vbi_xds_packet, VBI_XDS_MAX_SUBCLASSES,
                    the vbi_xds_class enum (VBI_XDS_MAX_CLASSES, VBI_XDS_CLASS_MISC)
  src/cc.h          xds_sub_packet.buffer[..], sub_packet[..][..]
  src/xds_demux.c   store guard `sp->count > K`; does the "unknown class or subclass" branch
                    `goto discard` (which resets the *interrupted* packet) or leave it alone?
                    the subclass -> buffer index mapping: `if (i >= F) i += T - F;` and, when present,
                    `else if (i >= L) i = N_ELEMENTS (xd->subpacket[0]);` (subclasses L..F-1 refused
                    explicitly; F33: without it and with T < L the subclasses T.. and F.. share buffers);
                    the second extent of `subpacket[][]` is read from the struct declaration, not
                    assumed to be VBI_XDS_MAX_SUBCLASSES
  src/caption.c     store guard `sp->count > K`; does the parity-error branch of xds_separator
                    clear cc->curr_sp?  does xds_decoder compare the new network id with the
                    current one before it resets the decoder?

Output lean/ZvbiModel/Generated/XdsFacts.lean is written only when it changed.  The harness op
`extents` prints the same numbers from the compiled code and checks/C09.py compares them; the two
control-flow flags are cross-checked by the correspondence run (a wrong flag makes the model and
the code disagree on the corpus replays).
"""
import os, re, sys

REPO = os.environ.get("ZVBI_REPO", "/repo")
HERE = os.path.dirname(os.path.abspath(__file__))
OUT = os.path.join(HERE, "..", "lean", "ZvbiModel", "Generated", "XdsFacts.lean")


def strip_comments(s):
    s = re.sub(r"/\*.*?\*/", " ", s, flags=re.S)
    return re.sub(r"//[^\n]*", " ", s)


def rd(name):
    return strip_comments(open(os.path.join(REPO, "src", name), encoding="latin-1").read())


def need(m, what):
    if not m:
        raise SystemExit("gen_xds: cannot find %s" % what)
    return m


def cexpr(s, env=None):
    """tiny constant-expression evaluator: integers, + - * ( ), names from env"""
    s = s.strip()
    for k, v in (env or {}).items():
        s = re.sub(r"\b%s\b" % re.escape(k), str(v), s)
    s = re.sub(r"\b(0[xX][0-9a-fA-F]+|\d+)[uUlL]*\b", lambda m: str(int(m.group(1), 0)), s)
    if not re.fullmatch(r"[\d\s+\-*()]+", s):
        raise SystemExit("gen_xds: cannot evaluate constant expression %r" % s)
    return int(eval(s, {"__builtins__": {}}, {}))


def block_after(src, pos):
    """text of the {...} block that starts at or after pos"""
    i = src.index("{", pos)
    depth, j = 0, i
    while True:
        if src[j] == "{":
            depth += 1
        elif src[j] == "}":
            depth -= 1
            if depth == 0:
                return src[i:j + 1]
        j += 1


def function_body(src, name):
    m = need(re.search(r"\b%s\s*\([^;{]*\)\s*\{" % re.escape(name), src), "function " + name)
    return block_after(src, m.start())


def main():
    h = rd("xds_demux.h")
    # enum vbi_xds_class: position of the enumerators
    m = need(re.search(r"typedef\s+enum\s*\{([^}]*)\}\s*vbi_xds_class\s*;", h), "enum vbi_xds_class")
    val, enum = -1, {}
    for item in m.group(1).split(","):
        item = item.strip()
        if not item:
            continue
        if "=" in item:
            n, e = item.split("=")
            val = cexpr(e, enum)
            enum[n.strip()] = val
        else:
            val += 1
            enum[item] = val
    for k in ("VBI_XDS_CLASS_MISC", "VBI_XDS_CLASS_UNDEFINED"):
        need(k in enum, "enumerator " + k)
    m = need(re.search(r"#\s*define\s+VBI_XDS_MAX_CLASSES\s+(.*)", h), "VBI_XDS_MAX_CLASSES")
    d_classes = cexpr(m.group(1), enum)
    m = need(re.search(r"#\s*define\s+VBI_XDS_MAX_SUBCLASSES\s+(.*)", h), "VBI_XDS_MAX_SUBCLASSES")
    d_sub = cexpr(m.group(1), enum)
    m = need(re.search(r"typedef\s+struct\s*\{([^}]*)\}\s*_vbi_xds_subpacket\s*;", h), "_vbi_xds_subpacket")
    d_buf = cexpr(need(re.search(r"\bbuffer\s*\[([^\]]*)\]", m.group(1)), "_vbi_xds_subpacket.buffer").group(1))
    m = need(re.search(r"typedef\s+struct\s*\{([^}]*)\}\s*vbi_xds_packet\s*;", h), "vbi_xds_packet")
    d_pkt = cexpr(need(re.search(r"\bbuffer\s*\[([^\]]*)\]", m.group(1)), "vbi_xds_packet.buffer").group(1))
    cenv = dict(enum)
    cenv.update({"VBI_XDS_MAX_CLASSES": d_classes, "VBI_XDS_MAX_SUBCLASSES": d_sub})
    m = need(re.search(r"struct\s+_vbi_xds_demux\s*\{([^}]*)\}", h), "struct _vbi_xds_demux")
    m = need(re.search(r"\bsubpacket\s*\[([^\]]*)\]\s*\[([^\]]*)\]", m.group(1)), "_vbi_xds_demux.subpacket[][]")
    d_classes_arr, d_slots = cexpr(m.group(1), cenv), cexpr(m.group(2), cenv)
    if d_classes_arr != d_classes:
        raise SystemExit("gen_xds: first extent of subpacket[][] is %d, VBI_XDS_MAX_CLASSES is %d" % (d_classes_arr, d_classes))

    c = rd("cc.h")
    m = need(re.search(r"typedef\s+struct\s*\{([^}]*)\}\s*xds_sub_packet\s*;", c), "xds_sub_packet")
    s_fields = re.findall(r"\b(count|chksum|buffer)\b", m.group(1))
    s_buf = cexpr(need(re.search(r"\bbuffer\s*\[([^\]]*)\]", m.group(1)), "xds_sub_packet.buffer").group(1))
    m = need(re.search(r"\bsub_packet\s*\[([^\]]*)\]\s*\[([^\]]*)\]", c), "caption.sub_packet")
    s_classes, s_sub = cexpr(m.group(1)), cexpr(m.group(2))

    # ---- xds_demux.c ----
    f = function_body(rd("xds_demux.c"), "vbi_xds_demux_feed")
    m = need(re.search(r"if\s*\(\s*sp->count\s*(>=|>)\s*([^{;]*?)\)\s*\{", f), "xds_demux.c store guard")
    expr = m.group(2).replace("sizeof (sp->buffer)", str(d_buf)).replace("sizeof(sp->buffer)", str(d_buf))
    d_guard = cexpr(expr) - (1 if m.group(1) == ">=" else 0)       # store happens iff count <= guard
    m = need(re.search(r"if\s*\(\s*xds_class\s*>\s*(\w+)", f), "xds_demux.c class check")
    d_maxcls = cexpr(m.group(1), enum)
    m = need(re.search(r"if\s*\(\s*i\s*>=\s*(\w+)\s*\)\s*i\s*\+=\s*([^;]*);", f), "xds_demux.c subclass remap")
    d_remap_from = cexpr(m.group(1), cenv)
    d_remap_add = cexpr(m.group(1) + " + " + m.group(2), cenv)        # value that i = remap_from becomes
    # optional `else if (i >= L) i = N_ELEMENTS (xd->subpacket[0]);` right behind the remap
    rest = f[m.end():]
    m2 = re.match(r"\s*else\b", rest)
    if m2:
        m3 = re.match(r"\s*else\s+if\s*\(\s*i\s*>=\s*(\w+)\s*\)\s*i\s*=\s*N_ELEMENTS\s*\(\s*xd->subpacket\s*\[\s*0\s*\]\s*\)\s*;", rest)
        if not m3:
            raise SystemExit("gen_xds: the subclass remap has an `else` branch of an unknown shape")
        d_low = cexpr(m3.group(1), cenv)
        if d_low > d_remap_from:
            raise SystemExit("gen_xds: `else if (i >= %d)` behind `if (i >= %d)`: shape unknown" % (d_low, d_remap_from))
        d_gap = True
    else:
        d_low, d_gap = d_remap_from, False
    if not re.search(r"i\s*>=\s*N_ELEMENTS\s*\(\s*xd->subpacket\s*\[\s*0\s*\]\s*\)", f):
        raise SystemExit("gen_xds: index check `i >= N_ELEMENTS (xd->subpacket[0])` not found")
    rej = block_after(f, need(re.search(r"if\s*\(\s*xds_class\s*>", f), "reject branch").start())
    d_reject_keeps = "goto discard" not in rej

    # ---- caption.c ----
    f = function_body(rd("caption.c"), "xds_separator")
    m = need(re.search(r"if\s*\(\s*sp->count\s*(>=|>)\s*([^{;]*?)\)\s*\{", f), "caption.c store guard")
    s_guard = cexpr(m.group(2)) - (1 if m.group(1) == ">=" else 0)
    err = block_after(f, need(re.search(r"if\s*\(\s*\(\s*c1\s*\|\s*c2\s*\)\s*<\s*0\s*\)", f), "parity branch").start())
    s_err_clears = re.search(r"cc->curr_sp\s*=\s*NULL", err) is not None
    # xds_decoder, network name announced: is the new id compared with the current one before
    # vbi_chsw_reset / the NETWORK event?
    f = function_body(rd("caption.c"), "xds_decoder")
    s_nuid_compared = re.search(r"if\s*\(\s*sum\s*!=\s*n->nuid\s*\)", f) is not None
    # xds_decoder, case 4 (program type): does the block declare its own `int neq`, hiding the one the
    # "announce on second occurrence" epilogue looks at?
    m4 = need(re.search(r"case\s+4\s*:", f), "xds_decoder case 4")
    s_type_shadow = re.search(r"\bint\s+neq\s*;", block_after(f, m4.end())) is not None

    text = """-- generated by translate/gen_xds.py from src/xds_demux.[ch], src/cc.h, src/caption.c - do not edit
namespace Zvbi.Gen.Xds

/-- `sizeof (_vbi_xds_subpacket.buffer)` -/
def demuxBufExtent : Nat := %d
/-- `VBI_XDS_MAX_CLASSES`, first extent of `subpacket[][]` -/
def demuxClasses : Nat := %d
/-- second extent of `subpacket[][]` (`N_ELEMENTS (xd->subpacket[0])`) -/
def demuxSubclasses : Nat := %d
/-- `VBI_XDS_MAX_SUBCLASSES` (public macro) -/
def demuxMaxSubclasses : Nat := %d
/-- `sizeof (vbi_xds_packet.buffer)` -/
def demuxPktExtent : Nat := %d
/-- highest class accepted by `vbi_xds_demux_feed` (`xds_class > VBI_XDS_CLASS_MISC` is refused) -/
def demuxMaxClass : Nat := %d
/-- a byte pair is stored iff `sp->count <= demuxStoreGuard` (xds_demux.c) -/
def demuxStoreGuard : Nat := %d
/-- subclasses `>= demuxRemapFrom` are moved down so that `demuxRemapFrom` lands on `demuxRemapTo` -/
def demuxRemapFrom : Nat := %d
def demuxRemapTo : Nat := %d
/-- subclasses `demuxLowLimit .. demuxRemapFrom - 1` are refused explicitly (`else if (i >= L) i =
    N_ELEMENTS (...)`); without that branch the value is `demuxRemapFrom` (nothing refused here) -/
def demuxLowLimit : Nat := %d
/-- the explicit refusal branch is present -/
def demuxGapRefused : Bool := %s
/-- the "unknown class or subclass" branch leaves the interrupted packet alone (no `goto discard`) -/
def demuxRejectKeepsCurrent : Bool := %s

/-- `sizeof (xds_sub_packet.buffer)` (cc.h) -/
def sepBufExtent : Nat := %d
/-- extents of `caption.sub_packet[][]` -/
def sepClasses : Nat := %d
def sepSubclasses : Nat := %d
/-- a byte pair is stored iff `sp->count <= sepStoreGuard` (caption.c) -/
def sepStoreGuard : Nat := %d
/-- field order of `xds_sub_packet` is count, chksum, buffer (what `buffer[-1]`, `buffer[-2]` overlay) -/
def sepChksumBeforeBuffer : Bool := %s
/-- the parity-error branch of `xds_separator` clears `cc->curr_sp` -/
def sepErrClearsCurr : Bool := %s
/-- `xds_decoder`, network name repeated: `vbi_chsw_reset` (which flushes every XDS buffer) and the
    NETWORK event happen only `if (sum != n->nuid)` -/
def sepNuidCompared : Bool := %s
/-- `xds_decoder` case 4 (program type) declares a local `int neq` that hides the outer one, so the
    epilogue never sees a change of the program type -/
def svcTypeNeqShadowed : Bool := %s

end Zvbi.Gen.Xds
""" % (d_buf, d_classes, d_slots, d_sub, d_pkt, d_maxcls, d_guard, d_remap_from, d_remap_add,
       d_low, "true" if d_gap else "false",
       "true" if d_reject_keeps else "false",
       s_buf, s_classes, s_sub, s_guard,
       "true" if s_fields[-2:] == ["chksum", "buffer"] else "false",
       "true" if s_err_clears else "false",
       "true" if s_nuid_compared else "false",
       "true" if s_type_shadow else "false")
    old = open(OUT).read() if os.path.exists(OUT) else None
    if old != text:
        os.makedirs(os.path.dirname(OUT), exist_ok=True)
        open(OUT, "w").write(text)
        print("gen_xds: wrote", os.path.normpath(OUT))


if __name__ == "__main__":
    main()
