#!/usr/bin/env python3
"""Translator for the trigger component of C01 -> lean/ZvbiModel/Generated/TrigLayout.lean.

Regenerated from the CURRENT source on every run:

  src/trigger.c   parse_eacem / parse_atvef   the end pointers (`dx = d + sizeof (...) - k`) and the comparison of every
                                              `if (c && d < dx)` guard -> how many characters each copy loop may store;
                                              the size argument of every strlcpy; the keyword tables and the counts
                                              handed to keyword(); the bare [type] loop bounds; local `char buf[N]`
                  text loop head              does the loop read `*s` on every iteration (repaired) or only while
                                              `quote` is clear (a `"` makes it skip a byte unread: over-read)
                  bare [type] attribute       does `continue` compensate the loop increment (repaired) or skip a byte
                  parse_time                  is the seconds value bounded before `seconds * 25 + frames`
                  vbi_deferred_trigger, add_trigger (delete walk)
                                              does the loop head re-read `t->next` of the node just freed
                  add_trigger                 is `*a` copied into the new node
  src/caption.c   itv_separator               the reset threshold of itv_count, sizeof itv_buf
  src/packet.c    eacem_trigger               rows x columns written into pg.text
  C probe (#includes src/trigger.c)           sizeof of the vbi_link members, itv_buf, vbi_page.text, link type values

Everything else of these functions is compared, whitespace- and comment-normalised and with the recognised pieces cut
out, against the skeleton the hand-written model (Trig/Model.lean) was translated from: a change anywhere else stops
the translator ("not recognised"), which the check reports.  TRIG_SKELETON=0 switches the skeleton comparison off
(used to see which other part of the check notices a mutant)."""
import hashlib, os, re, subprocess, sys, tempfile

REPO = os.environ.get("ZVBI_REPO", "/repo")
HERE = os.path.dirname(os.path.abspath(__file__))
OUT = os.path.join(HERE, "..", "lean", "ZvbiModel", "Generated", "TrigLayout.lean")


def die(msg):
    sys.exit("gen_trig: " + msg)


def strip_comments(s):
    s = re.sub(r"/\*.*?\*/", " ", s, flags=re.S)
    return re.sub(r"//[^\n]*", " ", s)


def norm(s):
    return re.sub(r"\s+", "", s)


def function_text(src, name):
    """whole definition of `name` (from the name to the closing brace)"""
    for m in re.finditer(r"^" + re.escape(name) + r"\s*\(", src, flags=re.M):
        i, depth = m.end(), 1
        while i < len(src) and depth:
            depth += {"(": 1, ")": -1}.get(src[i], 0)
            i += 1
        j = i
        while j < len(src) and src[j] in " \t\r\n":
            j += 1
        if j < len(src) and src[j] == "{":
            k, depth = j + 1, 1
            while k < len(src) and depth:
                depth += {"{": 1, "}": -1}.get(src[k], 0)
                k += 1
            return src[m.start():k]
    die("definition of %s not found" % name)


class Cut:
    """normalised function text from which recognised pieces are cut (replaced by a placeholder)"""

    def __init__(self, name, text):
        self.name, self.t = name, norm(text)

    def take(self, rx, what, count=1, ph="@"):
        ms = list(re.finditer(rx, self.t))
        if len(ms) != count:
            die("%s: %s: expected %d occurrence(s) of /%s/, found %d" % (self.name, what, count, rx, len(ms)))
        self.t = re.sub(rx, ph, self.t)
        return ms

    def has(self, rx_fixed, rx_orig, what, count=1, ph="@"):
        """-> True when the repaired form is present `count` times, False for the original form; anything else stops"""
        a, b = len(re.findall(rx_fixed, self.t)), len(re.findall(rx_orig, self.t))
        if (a, b) == (count, 0):
            self.t = re.sub(rx_fixed, ph, self.t)
            return True
        if (a, b) == (0, count):
            self.t = re.sub(rx_orig, ph, self.t)
            return False
        die("%s: %s: neither the original nor the repaired form recognised (%d / %d)" % (self.name, what, a, b))

    def digest(self):
        return hashlib.sha256(self.t.encode()).hexdigest()[:16]


trig = strip_comments(open(os.path.join(REPO, "src", "trigger.c")).read())
capt = strip_comments(open(os.path.join(REPO, "src", "caption.c")).read())
pack = strip_comments(open(os.path.join(REPO, "src", "packet.c")).read())

SZ = {"t->link.url": "urlSize", "t->link.name": "nameSize", "t->link.script": "scriptSize", "buf": "buf"}
vals = {}          # name -> Lean term
digests = {}


def strings(tbl):
    return re.findall(r'"([^"]*)"', tbl)


def parser(name, pfx, delim_rx):
    c = Cut(name, function_text(trig, name))
    # local buffer
    m = c.take(r"charbuf\[(\d+)\];", "local buffer")[0]
    bufsz = int(m.group(1))
    vals[pfx + "BufSize"] = str(bufsz)
    # end pointers, in source order: url, buf
    ms = c.take(r"dx=(?:\(char\*\))?d\+sizeof\(([\w>.-]+)\)-(\d+);", "end pointers", 2)
    if ms[0].group(1) != "t->link.url" or ms[1].group(1) != "buf":
        die(name + ": end pointers are not (url, buf)")
    slack_url, slack_buf = int(ms[0].group(2)), int(ms[1].group(2))
    # the three guards, in source order: url loop, attribute loop, text loop
    ms = c.take(r"if\(c&&d(<=?)dx\)\*d\+\+=c;elsereturnNULL;", "copy guards", 3)
    ops = [m.group(1) for m in ms]
    lim = lambda size, slack, op: "%s - %d + %d" % (size, slack, 1 if op == "<=" else 0)
    vals[pfx + "UrlLim"] = lim("urlSize", slack_url, ops[0])
    vals[pfx + "AttrLim"] = lim(str(bufsz), slack_buf, ops[1])
    vals[pfx + "TextLim"] = lim(str(bufsz), slack_buf, ops[2])
    # terminating stores of the three loops
    c.take(r"\*d\+\+=0;", "NUL stores", 3)
    # strlcpy + explicit terminator
    for mem, key in (("name", "NameN"), ("script", "ScriptN")):
        m = c.take(r"strlcpy\(\(char\*\)t->link\.%s,text,sizeof\(t->link\.%s\)(-\d+)?\);t->link\.%s\[sizeof\(t->link\.%s\)-1\]=0;"
                   % (mem, mem, mem, mem), "strlcpy " + mem)[0]
        vals[pfx + key] = "%sSize - %d" % (mem, -int(m.group(1) or "0"))
    # keyword tables
    m = c.take(r"staticconstchar\*attributes\[\]=\{([^}]*)\};", "attribute table")[0]
    attrs = strings(m.group(1))
    vals[pfx + "Attrs"] = "[" + ", ".join('"%s"' % a for a in attrs) + "]"
    m = c.take(r"keyword\(attr,attributes,sizeof\(attributes\)/sizeof\(attributes\[0\]\)([+-]\d+)?\)", "keyword count")[0]
    vals[pfx + "KwNum"] = "%d" % (len(attrs) + int(m.group(1) or "0"))
    # text loop head
    q = c.has(r"for\(text=d;c=\*s,quote\|\|c!=" + delim_rx + r";s\+\+\)",
              r"for\(text=d;quote\|\|\(c=\*s\)!=" + delim_rx + r";s\+\+\)", "text loop head")
    vals[pfx + "QuoteFix"] = "true" if q else "false"
    return c, attrs


ce, eattrs = parser("parse_eacem", "e", "delim")
digests["parse_eacem"] = ce.digest()

ca, aattrs = parser("parse_atvef", "a", r"'\]'")
m = ca.take(r"staticconstchar\*type_attrs\[\]=\{([^}]*)\};", "type table")[0]
tattrs = strings(m.group(1))
vals["typeAttrs"] = "[" + ", ".join('"%s"' % a for a in tattrs) + "]"
m = ca.take(r"keyword\(text,type_attrs,sizeof\(type_attrs\)/sizeof\(type_attrs\[0\]\)([+-]\d+)?\)", "type keyword count")[0]
vals["aTypeNum"] = "%d" % (len(tattrs) + int(m.group(1) or "0"))
ms = ca.take(r"for\(i=(\d+);i<\(sizeof\(type_attrs\)/sizeof\(type_attrs\[0\]\)([+-]\d+)?\);i\+\+\)", "bare type loop")
vals["typeLoopLo"] = ms[0].group(1)
vals["typeLoopHi"] = "%d" % (len(tattrs) + int(ms[0].group(2) or "0"))
ms = ca.take(r"if\(i<\(sizeof\(type_attrs\)/sizeof\(type_attrs\[0\]\)([+-]\d+)?\)\)\{", "bare type test")
if "%d" % (len(tattrs) + int(ms[0].group(1) or "0")) != vals["typeLoopHi"]:
    die("parse_atvef: the bare type loop and its test use different bounds")
vals["contFix"] = "true" if ca.has(r"t->link\.itv_type=i\+1;s--;continue;", r"t->link\.itv_type=i\+1;continue;",
                                   "bare type continue") else "false"
digests["parse_atvef"] = ca.digest()

# parse_time
ct = Cut("parse_time", function_text(trig, "parse_time"))
if re.search(r"unsignedlongseconds;", ct.t):
    m = ct.take(r"if\(seconds>\(INT_MAX-(\d+)\)/(\d+)\)return-1;", "seconds bound")[0]
    vals["timeMax"] = "some ((2147483647 - %s) / %s)" % (m.group(1), m.group(2))
    ct.take(r"unsignedlongseconds;intframes=0;", "declarations")
else:
    ct.take(r"intseconds,frames=0;", "declarations")
    vals["timeMax"] = "none"
digests["parse_time"] = ct.digest()

# list walks
cd = Cut("vbi_deferred_trigger", function_text(trig, "vbi_deferred_trigger"))
vals["walkFixDeferred"] = "true" if cd.has(r"for\(tp=&vbi->triggers;\(t=\*tp\);\)", r"for\(tp=&vbi->triggers;\(t=\*tp\);tp=&t->next\)",
                                           "walk head") else "false"
digests["vbi_deferred_trigger"] = cd.digest()
cadd = Cut("add_trigger", function_text(trig, "add_trigger"))
vals["walkFixDelete"] = "true" if cadd.has(r"for\(tp=&vbi->triggers;\(t=\*tp\);\)", r"for\(tp=&vbi->triggers;\(t=\*tp\);tp=&t->next\)",
                                           "delete walk head") else "false"
vals["copyFix"] = "true" if cadd.has(r"return;\*t=\*a;t->next=vbi->triggers;", r"return;t->next=vbi->triggers;", "node copy") else "false"
digests["add_trigger"] = cadd.digest()

for fn in ("verify_checksum", "parse_dec", "parse_hex", "parse_date", "parse_bool", "keyword", "vbi_trigger_flush",
           "vbi_eacem_trigger", "vbi_atvef_trigger"):
    digests[fn] = Cut(fn, function_text(trig, fn)).digest()

# caption.c itv_separator
ci = Cut("itv_separator", function_text(capt, "itv_separator"))
m = ci.take(r"cc->itv_count>\(int\)sizeof\(cc->itv_buf\)-(\d+)", "reset threshold")[0]
vals["itvResetAbove"] = "itvBufSize - %s" % m.group(1)
digests["itv_separator"] = ci.digest()

# packet.c eacem_trigger
cp = Cut("eacem_trigger", function_text(pack, "eacem_trigger"))
m = cp.take(r"for\(i=(\d+);i<(\d+);i\+\+\)for\(j=(\d+);j<(\d+);j\+\+\)", "page walk")[0]
vals["pageChars"] = "%d" % ((int(m.group(2)) - int(m.group(1))) * (int(m.group(4)) - int(m.group(3))))
digests["eacem_trigger"] = cp.digest()

EXPECT = {
    "parse_eacem": "6d4707cf2d9547a9",
    "parse_atvef": "02b6b913e28488aa",
    "parse_time": "ee48c09e5202b915",
    "vbi_deferred_trigger": "070f33821ea0b7f8",
    "add_trigger": "6fd3858046c4474b",
    "verify_checksum": "6cd7468e270f18a5",
    "parse_dec": "83d2a6153b0c8e0c",
    "parse_hex": "c5349539c9bae0ca",
    "parse_date": "9cabca075160e594",
    "parse_bool": "ab99cc3339d420bf",
    "keyword": "3a135f28bb2451f9",
    "vbi_trigger_flush": "08aac8b5a3ccd3ca",
    "vbi_eacem_trigger": "958565d2e24484f3",
    "vbi_atvef_trigger": "99f04fa98174e6ca",
    "itv_separator": "7e5852966c8c7ed2",
    "eacem_trigger": "c1301a2fa9b83f5b",
}
# parse_time has two skeletons (the repaired one declares the bound)
EXPECT_ALT = {"parse_time": ["5b93ef370d439e64"]}
if os.environ.get("TRIG_PRINT_DIGESTS"):
    print(digests)
if os.environ.get("TRIG_SKELETON", "1") != "0":
    for fn, dg in sorted(digests.items()):
        if dg != EXPECT.get(fn) and dg not in EXPECT_ALT.get(fn, []):
            die("%s: the text outside the recognised pieces changed (digest %s): the model in Trig/Model.lean was "
                "translated from another text - not recognised" % (fn, dg))

# --- probe -----------------------------------------------------------------------------------------------------------
probe = r'''
#include <stdio.h>
#include <stddef.h>
#include "src/trigger.c"
int main(void){ vbi_link *l = 0; vbi_decoder *v = 0; vbi_page *p = 0;
 printf("urlSize %zu\n", sizeof l->url); printf("nameSize %zu\n", sizeof l->name); printf("scriptSize %zu\n", sizeof l->script);
 printf("itvBufSize %zu\n", sizeof v->cc.itv_buf); printf("pgTextBytes %zu\n", sizeof p->text);
 printf("linkHttp %d\n", (int) VBI_LINK_HTTP); printf("linkLid %d\n", (int) VBI_LINK_LID);
 printf("linkTeleweb %d\n", (int) VBI_LINK_TELEWEB); printf("linkMessage %d\n", (int) VBI_LINK_MESSAGE);
 printf("linkPage %d\n", (int) VBI_LINK_PAGE); printf("nextOffset %zu\n", offsetof(struct vbi_trigger, next));
 printf("intMax %d\n", INT_MAX); printf("charSigned %d\n", (char) -1 < 0); printf("longBits %zu\n", 8 * sizeof(unsigned long));
 return 0; }
'''
with tempfile.TemporaryDirectory() as d:
    c = os.path.join(d, "p.c")
    open(c, "w").write(probe)
    exe = os.path.join(d, "p")
    # unused functions of trigger.c (and their references into the library) are discarded by the linker
    r = subprocess.run(["gcc", "-std=gnu99", "-D_GNU_SOURCE", "-DHAVE_CONFIG_H", "-D_REENTRANT", "-w", "-O1", "-ffunction-sections",
                        "-fdata-sections", "-I" + REPO, "-I" + os.path.join(REPO, "src"), c, "-o", exe, "-Wl,--gc-sections", "-lm"],
                       stdout=subprocess.PIPE, stderr=subprocess.STDOUT)
    if r.returncode != 0:
        die("probe does not compile:\n" + r.stdout.decode()[-2000:])
    out = subprocess.run([exe], stdout=subprocess.PIPE).stdout.decode()
pv = {}
for l in out.strip().split("\n"):
    w = l.split()
    pv[w[0]] = int(w[1])
if pv.get("charSigned") != 1 or pv.get("longBits") != 64 or pv.get("nextOffset") != 0:
    die("the model assumes signed char, 64-bit unsigned long, `next` first in struct vbi_trigger: %r" % pv)

L = ["-- GENERATED by translate/gen_trig.py from src/trigger.c, src/caption.c, src/packet.c - do not edit",
     "namespace Zvbi.Gen.Trig", "",
     "/-! ## extents (C probe) -/"]
for k in ("urlSize", "nameSize", "scriptSize", "itvBufSize", "pgTextBytes", "linkHttp", "linkLid", "linkTeleweb", "linkMessage",
          "linkPage", "intMax"):
    L.append("def %s : Nat := %d" % (k, pv[k]))
L += ["", "/-! ## parse_eacem / parse_atvef: local `char buf[N]`, characters each copy loop may store (`d < dx`), strlcpy sizes -/"]
for k in ("eBufSize", "aBufSize", "eUrlLim", "eAttrLim", "eTextLim", "aUrlLim", "aAttrLim", "aTextLim",
          "eNameN", "eScriptN", "aNameN", "aScriptN", "eKwNum", "aKwNum", "aTypeNum", "typeLoopLo", "typeLoopHi", "pageChars"):
    L.append("def %s : Nat := %s" % (k, vals[k]))
L.append("def itvResetAbove : Nat := %s" % vals["itvResetAbove"])
L += ["", "/-! ## keyword tables -/"]
for k in ("eAttrs", "aAttrs", "typeAttrs"):
    L.append("def %s : List String := %s" % (k, vals[k]))
L += ["", "/-! ## forms of the code: `true` = repaired form present (see fixes/C01-trig-*.md) -/",
      "/-- text loop of parse_eacem reads `*s` on every iteration -/", "def eQuoteFix : Bool := %s" % vals["eQuoteFix"],
      "/-- text loop of parse_atvef reads `*s` on every iteration -/", "def aQuoteFix : Bool := %s" % vals["aQuoteFix"],
      "/-- the bare [type] attribute compensates the loop increment before `continue` -/", "def contFix : Bool := %s" % vals["contFix"],
      "/-- parse_time bounds the seconds value (`some max`) before `seconds * 25 + frames` -/", "def timeMax : Option Nat := %s" % vals["timeMax"],
      "/-- vbi_deferred_trigger does not touch the node it freed -/", "def walkFixDeferred : Bool := %s" % vals["walkFixDeferred"],
      "/-- the delete walk of add_trigger does not touch the node it freed -/", "def walkFixDelete : Bool := %s" % vals["walkFixDelete"],
      "/-- add_trigger copies the parsed trigger into the node it links -/", "def copyFix : Bool := %s" % vals["copyFix"],
      "", "end Zvbi.Gen.Trig", ""]
text = "\n".join(L)
old = open(OUT).read() if os.path.exists(OUT) else None
if old != text:
    os.makedirs(os.path.dirname(OUT), exist_ok=True)
    open(OUT, "w").write(text)
    print("gen_trig: wrote", OUT)
