#!/usr/bin/env python3
"""Translator for component `ure` (C17): constants, tables, extents and source shapes of src/ure.c
-> lean/ZvbiModel/Generated/UreLayout.lean (written only when changed).

From the source TEXT (comments stripped, white space normalised):
  * the `_URE_*` class flags / symbol types / op codes / `_URE_NOOP`, the error codes and `URE_*` exec flags of ure.h
  * `cclass_flags[]` (property number -> class flag), `cclass_trie[]` (key, len, next, mask), `spmap[]`
  * table growth step (`+ 8` / `<< 3`) of stack, symbol table, expression table, state table, equivalence table, ranges
  * which SHAPE four places have (current form = finding, other form = the proposed repair; anything else is an error and
    the check reports the property as no longer shown to hold):
      issepBrk      `#define _ure_issep(cc)`: `_ure_matches_properties(cc, _URE_SEPARATOR)` (arguments swapped, C17-U1) |
                    `_ure_isbrk(cc)`                                                     fixes/C17-ure-issep.diff
      bolGuard      ure_exec, zero-width `^` at the start of the text: unbounded (C17-U2) | `bol_steps > dfa->nstates`
                                                                                         fixes/C17-ure-bol-loop.diff
      patGuard      `*sp` / `*(sp + 1)` read at the end of the pattern in _ure_cclass (3x) and _ure_compile_symbol
                    (C17-U4) | each behind `sp < ep` / `sp + 1 < ep`                      fixes/C17-ure-pattern-overread.diff
      posixMinLen / posixColonMin   _ure_posix_ccl: `limit < 7`, closing colon accepted at `i == 6 || i == 7` (`:gfx:`,
                    `:drcs:` never end; `:drcs:` walks to cclass_trie[88], C17-U3) | `limit < 5`, `i >= 4`
                                                                                         fixes/C17-ure-posix-class.diff
      eotRestart    ure_exec, end of the text reached in a non-accepting state without a match behind: the search ends
                    (C17-U7) | the attempt is restarted at ms + 1                        fixes/C17-ure-eot-restart.diff
    plus the presence of the repairs of F47 (operator without operand) and F48 (property number bound)
From a C PROBE (#includes src/ure.c, run in the "C" locale like the harness):
  * N_ELEMENTS of cclass_flags / cclass_trie / spmap, sizeof of ucs2_t / ucs4_t / unsigned long / the table elements
  * the classification tables of the C library the engine calls (iswalnum ... iswxdigit as ranges over 0..0x10FFFF,
    towlower as (lo, hi, delta) runs): the `CType` instance of the model driver
"""
import os, re, subprocess, sys, tempfile

REPO = os.environ.get("ZVBI_REPO", "/repo")
HERE = os.path.dirname(os.path.abspath(__file__))
OUT = os.path.join(HERE, "..", "lean", "ZvbiModel", "Generated", "UreLayout.lean")
OUT_ANCHORS = os.path.join(HERE, "..", "lean", "ZvbiModel", "Generated", "UreAnchors.lean")


def die(msg):
    raise SystemExit("gen_ure: " + msg)


def strip(src):
    src = re.sub(r"/\*.*?\*/", " ", src, flags=re.S)
    src = re.sub(r"//[^\n]*", " ", src)
    return src


def norm(s):
    return re.sub(r"\s+", " ", s).strip()


def func_body(src, name):
    """text of the K&R/ANSI double-headed function `name` (from its name at the start of a line to the closing brace)"""
    m = re.search(r"\n" + name + r"\(.*?\n}\n", src, flags=re.S)
    if not m:
        die("function %s not found" % name)
    return norm(m.group(0))


def cval(expr, env):
    expr = expr.strip()
    m = re.fullmatch(r"\(?\s*1\s*<<\s*(\d+)\s*\)?", expr)
    if m:
        return 1 << int(m.group(1))
    if re.fullmatch(r"-?\d+", expr):
        return int(expr)
    if re.fullmatch(r"0[xX][0-9a-fA-F]+", expr):
        return int(expr, 16)
    if expr in env:
        return env[expr]
    die("cannot evaluate `%s`" % expr)


def read(repo=None):
    repo = repo or REPO
    raw = open(os.path.join(repo, "src", "ure.c"), encoding="latin-1").read()
    src = strip(raw)
    hdr = strip(open(os.path.join(repo, "src", "ure.h"), encoding="latin-1").read())
    env = {}
    for text in (hdr, src):
        for m in re.finditer(r"^[ \t]*#[ \t]*define[ \t]+(_?URE_\w+)[ \t]+([^\n]+)$", text, flags=re.M):
            try:
                env[m.group(1)] = cval(m.group(2), env)
            except SystemExit:
                pass
    need = ["_URE_ALNUM", "_URE_ALPHA", "_URE_CNTRL", "_URE_DIGIT", "_URE_GRAPH", "_URE_LOWER", "_URE_PRINT", "_URE_PUNCT",
            "_URE_SPACE", "_URE_UPPER", "_URE_XDIGIT", "_URE_TITLE", "_URE_DEFINED", "_URE_WIDE", "_URE_NONSPACING",
            "_URE_SEPARATOR", "_URE_ZVBI_GFX", "_URE_ZVBI_DRCS", "_URE_DFA_CASEFOLD", "_URE_DFA_BLANKLINE",
            "_URE_ANY_CHAR", "_URE_CHAR", "_URE_CCLASS", "_URE_NCCLASS", "_URE_BOL_ANCHOR", "_URE_EOL_ANCHOR",
            "_URE_SYMBOL", "_URE_PAREN", "_URE_QUEST", "_URE_STAR", "_URE_PLUS", "_URE_ONE", "_URE_AND", "_URE_OR",
            "_URE_NOOP", "_URE_OK", "_URE_UNEXPECTED_EOS", "_URE_CCLASS_OPEN", "_URE_UNBALANCED_GROUP",
            "_URE_INVALID_PROPERTY", "URE_DOT_MATCHES_SEPARATORS", "URE_NOTBOL", "URE_NOTEOL"]
    for n in need:
        if n not in env:
            die("#define %s not found" % n)
    # the model hard-wires these values (bit numbers in matchesProps, the exec flag bits): refuse anything else
    fixed = {"_URE_ALNUM": 1, "_URE_XDIGIT": 1 << 10, "_URE_NONSPACING": 1 << 14, "_URE_SEPARATOR": 1 << 15,
             "_URE_ZVBI_GFX": 1 << 16, "_URE_ZVBI_DRCS": 1 << 17, "URE_DOT_MATCHES_SEPARATORS": 2, "URE_NOTBOL": 4,
             "URE_NOTEOL": 8, "_URE_NOOP": 0xFFFF, "_URE_DFA_CASEFOLD": 1, "_URE_DFA_BLANKLINE": 2}
    for k, v in fixed.items():
        if env[k] != v:
            die("%s = %#x, the model assumes %#x" % (k, env[k], v))
    order = ["_URE_ALNUM", "_URE_ALPHA", "_URE_CNTRL", "_URE_DIGIT", "_URE_GRAPH", "_URE_LOWER", "_URE_PRINT", "_URE_PUNCT",
             "_URE_SPACE", "_URE_UPPER", "_URE_XDIGIT"]
    for i, n in enumerate(order):
        if env[n] != 1 << i:
            die("%s is not bit %d" % (n, i))
    # _ure_matches_properties: the eleven libc tests in this order, then nonspacing, gfx, drcs
    mp = func_body(src, "_ure_matches_properties")
    fns = re.findall(r"\(props & (_URE_\w+)\) && \(unicode_is(\w+)\(c\)\)", mp)
    if [f[0] for f in fns] != order or [f[1] for f in fns] != ["alnum", "alpha", "cntrl", "digit", "graph", "lower", "print",
                                                              "punct", "space", "upper", "xdigit"]:
        die("_ure_matches_properties: libc tests not recognised")
    for t in ("if (props & _URE_NONSPACING) return 1;", "if (props & _URE_ZVBI_GFX) { if (c >= 0xEE00 && c <= 0xEE7F) return 1; "
              "if (c >= 0xEF20 && c <= 0xEF7F) return 1; }", "if ((props & _URE_ZVBI_DRCS) && (c >= 0xF000 && c <= 0xF7FF)) return 1;"):
        if t not in mp:
            die("_ure_matches_properties: `%s` not found" % t)
    # tables
    m = re.search(r"static unsigned long cclass_flags\[\] = \{(.*?)\};", src, flags=re.S)
    if not m:
        die("cclass_flags[] not found")
    cflags = [cval(x, env) for x in m.group(1).split(",") if x.strip()]
    m = re.search(r"static _ure_trie_t cclass_trie\[\] = \{(.*?)\n\};", src, flags=re.S)
    if not m:
        die("cclass_trie[] not found")
    trie = [(ord(k), int(l), int(n), cval(mask, env))
            for k, l, n, mask in re.findall(r"\{\s*'(.)'\s*,\s*(\d+)\s*,\s*(\d+)\s*,\s*(\w+)\s*\}", m.group(1))]
    if len(trie) != len(re.findall(r"\{", m.group(1))):
        die("cclass_trie[]: entry not recognised")
    m = re.search(r"static unsigned char spmap\[\] = \{(.*?)\};", src, flags=re.S)
    if not m:
        die("spmap[] not found")
    spmap = [cval(x, env) for x in m.group(1).split(",") if x.strip()]
    if "#define _ure_isspecial(cc) ((cc) > 0x20 && (cc) < 0x7f && \\" not in raw:
        die("_ure_isspecial not recognised")
    # growth steps
    grow = sorted(set(re.findall(r"_size \+= (\d+);", src)))
    if grow != ["8"] or len(re.findall(r"<< 3\)", src)) < 6:
        die("table growth step is not 8 everywhere: %r" % grow)
    # shapes ----------------------------------------------------------------------------------------------------
    m = re.search(r"#define _ure_issep\(cc\)\s+([^\n]+)", src)
    if not m:
        die("_ure_issep not found")
    b = norm(m.group(1))
    if b == "_ure_matches_properties(cc, _URE_SEPARATOR)":
        issep_brk = False
    elif b == "_ure_isbrk(cc)":
        issep_brk = True
    else:
        die("_ure_issep: unknown shape `%s`" % b)
    if norm(re.search(r"#define _ure_isbrk\(cc\)\s+((?:[^\n]*\\\n)*[^\n]*)", src).group(1).replace("\\\n", " ")) != \
            "((cc) == '\\n' || (cc) == '\\r' || (cc) == 0x2028 || (cc) == 0x2029)":
        die("_ure_isbrk: unknown shape")
    ex = func_body(src, "ure_exec")
    old_bol = "if (lp == text) { sp = lp; matched = 1; } else if (_ure_isbrk(c))"
    new_bol = "if (lp == text) { if (bol_steps > dfa->nstates) break; bol_steps++; sp = lp; matched = 1; } else if (_ure_isbrk(c))"
    # line anchors (fixes/C17-line-anchors.diff, ure.c half): four places, all or none
    anc_bol = ("case _URE_BOL_ANCHOR: if (lp == text) { if (flags & URE_NOTBOL) break; } else if (!_ure_isbrk(lp[-1]) || "
               "(lp[-1] == '\\r' && c == '\\n')) break; if (bol_at != lp) { bol_at = lp; bol_steps = 0; } "
               "if (bol_steps > dfa->nstates) break; bol_steps++; sp = lp; matched = 1; break; case _URE_EOL_ANCHOR:")
    found_bol = "case _URE_BOL_ANCHOR: if (flags & URE_NOTBOL) break; if (lp == text) {"
    anc = [anc_bol in ex,
           "case _URE_EOL_ANCHOR: if (_ure_isbrk(c)) { sp = lp; matched = 1; } break;" in ex,
           "for (i = 0; found == 0 && !(flags & URE_NOTEOL) && i < stp->ntrans; i++) { sym = dfa->syms + stp->trans[i].symbol; "
           "if (sym->type ==_URE_EOL_ANCHOR) {" in ex,
           "} else { found = 1; } } }" in ex]
    fnd = [found_bol in ex and ((old_bol in ex) != (new_bol in ex)),
           "case _URE_EOL_ANCHOR: if (flags & URE_NOTEOL) break; if (_ure_isbrk(c)) { sp = lp; matched = 1; } break;" in ex,
           "for (i = 0; found == 0 && i < stp->ntrans; i++) { sym = dfa->syms + stp->trans[i].symbol; "
           "if (sym->type ==_URE_EOL_ANCHOR) {" in ex,
           "} else { found = 1; me = sp - text; } } }" in ex]
    if all(anc) and not any(fnd):
        line_anchors = True
    elif all(fnd) and not any(anc):
        line_anchors = False
    else:
        die("ure_exec: line anchors (`^` case, `$` case, end-of-text look-ahead, match end at the end of the text): "
            "unknown or half-applied shape %r %r" % (anc, fnd))
    if line_anchors:
        bol_guard = True        # the guard exists in the repaired shape (counted per position)
    else:
        if (old_bol in ex) == (new_bol in ex):
            die("ure_exec: `^` at the start of the text: unknown shape")
        bol_guard = new_bol in ex
    for t in ("if (acc_me != (unsigned long) ~0) { me = acc_me; found = 1; } else { if (ms != (unsigned long) ~0) sp = text + ms + 1;",
              "if (stp->accepting) acc_me = me;", "#if 0 if (sp < ep && 0xd800 <= c"):
        if t not in ex:
            die("ure_exec: `%s` not found (restart rule 8b7ac93 / longest match 9ff427f / disabled surrogate code)" % t)
    eot_old = "if (found == 0 && acc_me != (unsigned long) ~0) { me = acc_me; found = 1; } } else { found = 1;"
    eot_new = ("if (found == 0 && acc_me != (unsigned long) ~0) { me = acc_me; found = 1; } else if (found == 0 && ms + 1 < textlen) "
               "{ sp = text + ms + 1; stp = dfa->states; ms = me = ~0; } } else { found = 1;")
    if (eot_old in ex) == (eot_new in ex):
        die("ure_exec: end of the text in a non-accepting state: unknown shape")
    eot_restart = eot_new in ex
    cc = func_body(src, "_ure_cclass")
    cs = func_body(src, "_ure_compile_symbol")
    g_old = ["if (*sp == '^') {" in cc, cc.count("if (*sp == '-') {") == 2,
             "else if (*sp == '\\\\' && (*(sp + 1) == 'x'" in cs]
    g_new = ["if (sp < ep && *sp == '^') {" in cc, cc.count("if (sp < ep && *sp == '-') {") == 2,
             "else if (*sp == '\\\\' && sp + 1 < ep && (*(sp + 1) == 'x'" in cs]
    if all(g_old) and not any(g_new):
        pat_guard = False
    elif all(g_new) and not any(g_old):
        pat_guard = True
    else:
        die("reads at the end of the pattern (_ure_cclass, _ure_compile_symbol): unknown or half-applied shape %r %r" % (g_old, g_new))
    pc = func_body(src, "_ure_posix_ccl")
    m = re.search(r"if \(limit < (\d+)\) return 0;", pc)
    if not m:
        die("_ure_posix_ccl: length test not found")
    posix_min = int(m.group(1))
    if "if (*sp == ':' && (i == 6 || i == 7)) {" in pc:
        colon_min = 6
    elif "if (*sp == ':' && i >= 4) {" in pc:
        colon_min = 4
    else:
        die("_ure_posix_ccl: closing colon test not recognised")
    if "for (i = 0; sp < ep && i < 8; i++, sp++) {" not in pc:
        die("_ure_posix_ccl: loop head not recognised")
    pl = func_body(src, "_ure_prop_list")
    if "if (n > 32 || n >= sizeof(cclass_flags) / sizeof(cclass_flags[0])) {" not in pl:
        die("_ure_prop_list: property number bound (repair of F48) not found")
    me = func_body(src, "_ure_make_expr")
    if "(lhs == _URE_NOOP || rhs == _URE_NOOP)" not in me or "b->error = _URE_UNEXPECTED_EOS; return _URE_NOOP;" not in me:
        die("_ure_make_expr: operand test (repair of F47) not found")
    return dict(env=env, cflags=cflags, trie=trie, spmap=spmap, issep_brk=issep_brk, bol_guard=bol_guard,
                pat_guard=pat_guard, posix_min=posix_min, colon_min=colon_min, eot_restart=eot_restart,
                line_anchors=line_anchors)


def flags(repo=None):
    """-> dict(issep_brk, bol_guard, pat_guard, posix_min, colon_min, eot_restart) for lib/ure_stage.py"""
    r = read(repo)
    return {k: r[k] for k in ("issep_brk", "bol_guard", "pat_guard", "posix_min", "colon_min", "eot_restart", "line_anchors")}


PROBE = r'''
#include <stdio.h>
#include <locale.h>
#include "src/ure.c"
#define N(a) (sizeof(a) / sizeof((a)[0]))
typedef int (*cls_fn)(wint_t);
static void ranges(const char *name, cls_fn f)
{
	unsigned long c; long lo = -1;
	printf("cls %s", name);
	for (c = 0; c <= 0x110000; c++) {
		int in = (c < 0x110000) && f((wint_t) c);
		if (in && lo < 0) lo = (long) c;
		if (!in && lo >= 0) { printf(" %lx-%lx", (unsigned long) lo, c - 1); lo = -1; }
	}
	printf("\n");
}
int main(void)
{
	unsigned long c; long lo = -1, delta = 0;
	printf("n cclass_flags %zu\nn cclass_trie %zu\nn spmap %zu\n", N(cclass_flags), N(cclass_trie), N(spmap));
	printf("sizeof ucs2_t %zu\nsizeof ucs4_t %zu\nsizeof ulong %zu\n", sizeof(ucs2_t), sizeof(ucs4_t), sizeof(unsigned long));
	printf("sizeof elt %zu\nsizeof symtab %zu\nsizeof state %zu\nsizeof equiv %zu\nsizeof range %zu\nsizeof trans %zu\nsizeof dstate %zu\n",
	       sizeof(_ure_elt_t), sizeof(_ure_symtab_t), sizeof(_ure_state_t), sizeof(_ure_equiv_t), sizeof(_ure_range_t),
	       sizeof(_ure_trans_t), sizeof(_ure_dstate_t));
	ranges("alnum", iswalnum); ranges("alpha", iswalpha); ranges("cntrl", iswcntrl); ranges("digit", iswdigit);
	ranges("graph", iswgraph); ranges("lower", iswlower); ranges("print", iswprint); ranges("punct", iswpunct);
	ranges("space", iswspace); ranges("upper", iswupper); ranges("xdigit", iswxdigit);
	printf("lower");
	for (c = 0; c <= 0x110000; c++) {
		long dl = (c < 0x110000) ? (long) towlower((wint_t) c) - (long) c : 0;
		if (lo >= 0 && dl != delta) { printf(" %lx-%lx:%ld", (unsigned long) lo, c - 1, delta); lo = -1; }
		if (dl != 0 && lo < 0) { lo = (long) c; delta = dl; }
	}
	printf("\n");
	return 0;
}
'''


def probe(repo=None):
    repo = repo or REPO
    with tempfile.TemporaryDirectory() as d:
        c, exe = os.path.join(d, "p.c"), os.path.join(d, "p")
        open(c, "w").write(PROBE)
        r = subprocess.run(["gcc", "-std=gnu99", "-D_GNU_SOURCE", "-DHAVE_CONFIG_H", "-w", "-O1", "-I" + repo,
                            "-I" + os.path.join(repo, "src"), c, "-o", exe], stdout=subprocess.PIPE, stderr=subprocess.STDOUT)
        if r.returncode != 0:
            die("probe does not compile:\n" + r.stdout.decode()[-2000:])
        env = dict(os.environ)
        env["LC_ALL"] = "C"
        r = subprocess.run([exe], stdout=subprocess.PIPE, stderr=subprocess.STDOUT, env=env, timeout=120)
        if r.returncode != 0:
            die("probe failed:\n" + r.stdout.decode()[-2000:])
    out = {"n": {}, "sizeof": {}, "cls": {}, "lower": []}
    for line in r.stdout.decode().split("\n"):
        t = line.split()
        if not t:
            continue
        if t[0] in ("n", "sizeof"):
            out[t[0]][t[1]] = int(t[2])
        elif t[0] == "cls":
            out["cls"][t[1]] = [tuple(int(x, 16) for x in p.split("-")) for p in t[2:]]
        elif t[0] == "lower":
            for p in t[1:]:
                rg, dl = p.rsplit(":", 1)
                lo, hi = rg.split("-")
                out["lower"].append((int(lo, 16), int(hi, 16), int(dl)))
    return out


def lean_list(items, per=8, ind="  "):
    if not items:
        return "[]"
    rows = [", ".join(items[i:i + per]) for i in range(0, len(items), per)]
    return "[\n" + ind + (",\n" + ind).join(rows) + "]"


def main():
    r = read()
    p = probe()
    if p["n"]["cclass_flags"] != len(r["cflags"]) or p["n"]["cclass_trie"] != len(r["trie"]) or p["n"]["spmap"] != len(r["spmap"]):
        die("table sizes read from the text %d/%d/%d differ from the compiled ones %r" %
            (len(r["cflags"]), len(r["trie"]), len(r["spmap"]), p["n"]))
    if p["sizeof"]["ucs2_t"] != 2 or p["sizeof"]["ucs4_t"] != 4 or p["sizeof"]["ulong"] != 8:
        die("ucs2_t / ucs4_t / unsigned long are not 2 / 4 / 8 bytes: %r" % p["sizeof"])
    e = r["env"]
    names = ["alnum", "alpha", "cntrl", "digit", "graph", "lower", "print", "punct", "space", "upper", "xdigit"]
    L = ["-- GENERATED by translate/gen_ure.py from src/ure.c, src/ure.h and a C probe - do not edit",
         "namespace Zvbi.Gen.Ure", "",
         "/-! ## symbol types, op codes, error codes (source text) -/"]
    for n in ("_URE_ANY_CHAR", "_URE_CHAR", "_URE_CCLASS", "_URE_NCCLASS", "_URE_BOL_ANCHOR", "_URE_EOL_ANCHOR", "_URE_SYMBOL",
              "_URE_PAREN", "_URE_QUEST", "_URE_STAR", "_URE_PLUS", "_URE_ONE", "_URE_AND", "_URE_OR", "_URE_NOOP"):
        L.append("def %s : Nat := %d" % (n.strip("_").replace("URE_", "t"), e[n]))
    for n in ("_URE_OK", "_URE_UNEXPECTED_EOS", "_URE_CCLASS_OPEN", "_URE_UNBALANCED_GROUP", "_URE_INVALID_PROPERTY"):
        L.append("def %s : Int := %d" % (n.strip("_").replace("URE_", "e"), e[n]))
    L += ["", "/-- `cclass_flags[]`: property number -> class flag; %d elements (probe: N_ELEMENTS) -/" % len(r["cflags"]),
          "def cclassFlags : List Nat := " + lean_list(["0x%x" % x for x in r["cflags"]], 9),
          "", "/-- `cclass_trie[]`: (key, len, next, mask); %d elements -/" % len(r["trie"]),
          "def cclassTrie : List (Nat × Nat × Nat × Nat) := " + lean_list(["(0x%x, %d, %d, 0x%x)" % t for t in r["trie"]], 5),
          "", "/-- `spmap[]` of `_ure_isspecial` -/",
          "def spmap : List Nat := " + lean_list(["0x%02x" % x for x in r["spmap"]], 16),
          "", "/-- every table of the compilation buffer grows by this many elements; its 16 bit size field wraps at 65536 -/",
          "def growStep : Nat := 8",
          "", "/-! ## extents (C probe) -/"]
    for k in ("elt", "symtab", "state", "equiv", "range", "trans", "dstate"):
        L.append("def sizeof_%s : Nat := %d" % (k, p["sizeof"][k]))
    L += ["", "/-! ## source shapes (source text) -/",
          "/-- `_ure_issep (cc)` = `_ure_isbrk (cc)`; false = `_ure_matches_properties (cc, _URE_SEPARATOR)` (C17-U1) -/",
          "def issepBrk : Bool := %s" % str(r["issep_brk"]).lower(),
          "/-- ure_exec bounds the zero-width `^` transitions at the start of the text; false = unbounded (C17-U2) -/",
          "def bolGuard : Bool := %s" % str(r["bol_guard"]).lower(),
          "/-- the reads of `*sp` / `*(sp + 1)` in _ure_cclass / _ure_compile_symbol are behind `sp < ep`; false = not (C17-U4) -/",
          "def patGuard : Bool := %s" % str(r["pat_guard"]).lower(),
          "/-- _ure_posix_ccl: `if (limit < N) return 0` -/",
          "def posixMinLen : Nat := %d" % r["posix_min"],
          "/-- _ure_posix_ccl: the closing colon ends the class name from this loop index on (6 = `i == 6 || i == 7`) -/",
          "def posixColonMin : Nat := %d" % r["colon_min"],
          "/-- ure_exec restarts an attempt that ran into the end of the text; false = the search ends there (C17-U7) -/",
          "def eotRestart : Bool := %s" % str(r["eot_restart"]).lower(),
          "", "/-! ## classification tables of the C library in the \"C\" locale (C probe; bit number of the `_URE_*` flag) -/"]
    for i, n in enumerate(names):
        L.append("/-- isw%s -/" % n)
        L.append("def cls%d : List (Nat × Nat) := %s" % (i, lean_list(["(0x%x, 0x%x)" % x for x in p["cls"][n]], 8)))
    L += ["def clsTable : List (List (Nat × Nat)) := [" + ", ".join("cls%d" % i for i in range(11)) + "]",
          "/-- towlower: (lo, hi, delta) runs with towlower c = c + delta -/",
          "def lowerRuns : List (Nat × Nat × Int) := " + lean_list(["(0x%x, 0x%x, %d)" % x for x in p["lower"]], 6),
          "", "end Zvbi.Gen.Ure", ""]
    anchors_text = "\n".join([
        "-- GENERATED by translate/gen_ure.py from src/ure.c - do not edit",
        "namespace Zvbi.Gen.Ure", "",
        "/-- ure_exec: `^` is a zero-width test \"in front of the first character of a line\" (URE_NOTBOL = the text does not begin",
        "    at a line start), URE_NOTEOL switches off the end-of-text look-ahead only, the match end in front of a final",
        "    separator is kept (fixes/C17-line-anchors.diff); false = as found (C17-U8, C17-U9, reading of the flags behind C17-D8) -/",
        "def lineAnchors : Bool := %s" % str(r["line_anchors"]).lower(),
        "", "end Zvbi.Gen.Ure", ""])
    old_a = open(OUT_ANCHORS).read() if os.path.exists(OUT_ANCHORS) else None
    if old_a != anchors_text:
        open(OUT_ANCHORS, "w").write(anchors_text)
        print("UreAnchors.lean changed")
    text = "\n".join(L)
    old = open(OUT).read() if os.path.exists(OUT) else None
    if old != text:
        os.makedirs(os.path.dirname(OUT), exist_ok=True)
        open(OUT, "w").write(text)
        print("UreLayout.lean changed")
    else:
        print("UreLayout.lean unchanged")


if __name__ == "__main__":
    main()
