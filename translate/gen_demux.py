#!/usr/bin/env python3
"""Translator for component `demux` (C07): shape facts of src/dvb_demux.c -> Generated/DemuxCfg.lean.

The model takes four Booleans describing the source as it is *now* (`Demux.SrcCfg.current`):
* demuxCorSkipsEmptyFrame  - `demux_pes_packet_frame`: a frame without lines is skipped instead of being "returned" to a
  coroutine caller (callback == NULL); false = finding C07-cor-livelock, true = fixes/dvb-demux-cor-livelock.diff (776a0f0)
* demuxPesDiscardsOnError  - `demux_pes_packet`: a data unit error discards the frame (`0 != err`); false = the dead
  `err < 0` test (C07-pes-lockup), true = fixes/dvb-demux-pes-discard.diff (7c6e61c)
* demuxLateOverflowTest    - `line_address`: the sliced buffer overflow test stands behind the new-frame tests of both
  branches; false = first statement of the function (C07-full-frame), true = fixes/dvb-demux-full-frame.diff
* demuxTsCompletesInHeader - `demux_ts_packet`: `ts_pes_packet_complete ()` is also called at the end of the header
  evaluation; false = completion step inline in the copy loop only (F30), true = fixes/dvb-demux-ts-first-packet.diff
Any other shape of one of these statements is reported as a translator failure, so that the model is looked at again.
Two further facts the model relies on without following another shape (Props/C07Ts.lean states them as theorems, so a
change breaks the proof build): demuxTsErrorExitDead (`bad_ts_packet_return` only reached from `if (0)` blocks) and
demuxTsContinuityMinus1OrB3Plus1 (the only values stored in `dx->ts_continuity`)."""
import os, re, sys

REPO = os.environ.get("ZVBI_REPO", "/repo")
HERE = os.path.dirname(os.path.abspath(__file__))
OUT = os.path.join(HERE, "..", "lean", "ZvbiModel", "Generated", "DemuxCfg.lean")
OUT2 = os.path.join(HERE, "..", "lean", "ZvbiModel", "Generated", "DemuxTsShape.lean")


def strip_comments(s):
    return re.sub(r"/\*.*?\*/", " ", s, flags=re.S)


def main():
    src = strip_comments(open(os.path.join(REPO, "src", "dvb_demux.c")).read())
    m = re.search(r"\ndemux_pes_packet_frame\s*\(.*?\n\}\n", src, flags=re.S)
    if not m:
        raise SystemExit("gen_demux: demux_pes_packet_frame not found")
    body = re.sub(r"\s+", " ", m.group(0))
    orig = "dx->new_frame = TRUE; if (NULL == dx->callback) return VBI_ERR_CALLBACK; n_lines ="
    fixed = ("dx->new_frame = TRUE; if (NULL == dx->callback) { if (dx->frame.sp == dx->frame.sliced_begin) "
             "continue; return VBI_ERR_CALLBACK; } n_lines =")
    if orig in body:
        flag = "false"
    elif fixed in body:
        flag = "true"
    else:
        raise SystemExit("gen_demux: the callback == NULL branch of demux_pes_packet_frame has an unknown shape; "
                         "re-read the code and update lean/ZvbiModel/Demux/Model.lean pesPacketFrame")
    # error handling after demux_pes_packet_frame in demux_pes_packet: the unchanged tree tests `err < 0`,
    # which no VBI_ERR_* value satisfies (finding C07-pes-lockup); fixes/dvb-demux-pes-discard.diff tests `0 != err`
    m2 = re.search(r"\ndemux_pes_packet\s*\(.*?\n\}\n", src, flags=re.S)
    body2 = re.sub(r"\s+", " ", m2.group(0)) if m2 else ""
    if "if (VBI_ERR_CALLBACK == err) { goto failed; } else if (unlikely (err < 0)) { dx->new_frame = TRUE; }" in body2:
        flag2 = "false"
    elif "if (VBI_ERR_CALLBACK == err) { goto failed; } else if (unlikely (0 != err)) { dx->new_frame = TRUE; }" in body2:
        flag2 = "true"
    else:
        raise SystemExit("gen_demux: error handling after demux_pes_packet_frame in demux_pes_packet changed; "
                         "update lean/ZvbiModel/Demux/Model.lean pesIter")
    # line_address: position of the VBI_ERR_SLICED_BUFFER_OVERFLOW test.  Unchanged tree: first statement of the
    # function, before the new-frame tests (finding C07-full-frame); fixes/dvb-demux-full-frame.diff: in both
    # branches directly behind the new-frame / line-order tests (label `overflow:` at the end).
    m3 = re.search(r"\nline_address\s*\(.*?\n\}\n", src, flags=re.S)
    if not m3:
        raise SystemExit("gen_demux: line_address not found")
    body3 = re.sub(r"\s+", " ", m3.group(0))
    test = "if (unlikely (f->sp >= f->sliced_end))"
    n_tests = body3.count("f->sliced_end))")
    early = re.search(r"unsigned int frame_line; " + re.escape(test) + r" \{ error \(.*?\); return VBI_ERR_SLICED_BUFFER_OVERFLOW; \} "
                      r"lofp_to_line \(", body3)
    late1 = re.search(r"if \(NULL == rpp \|\| \(int8_t\) lofp < 0\) return -1; \} " + re.escape(test) + r" goto overflow; "
                      r"if \(NULL != rpp\) \{", body3)
    late2 = re.search(r"return VBI_ERR_DU_LINE_NUMBER; \} \} " + re.escape(test) + r" goto overflow; "
                      r"f->last_field = field; f->last_field_line = field_line; \*spp = f->sp\+\+;", body3)
    tail = re.search(r"return 0; overflow: error \(.*?\); return VBI_ERR_SLICED_BUFFER_OVERFLOW; \}", body3)
    if early and n_tests == 1 and "overflow:" not in body3:
        flag3 = "false"
    elif late1 and late2 and tail and n_tests == 2 and not early:
        flag3 = "true"
    else:
        raise SystemExit("gen_demux: the sliced buffer overflow test of line_address has an unknown shape/position; "
                         "re-read the code and update lean/ZvbiModel/Demux/Model.lean lineAddress")
    # demux_ts_packet: where the "PES packet complete" step is.  Unchanged tree: inline in the copy loop only
    # (finding F30); fixes/dvb-demux-ts-first-packet.diff: ts_pes_packet_complete (), called from the copy loop
    # and at the end of the header evaluation.
    m4 = re.search(r"\ndemux_ts_packet\s*\(.*?\n\}\n", src, flags=re.S)
    if not m4:
        raise SystemExit("gen_demux: demux_ts_packet not found")
    body4 = re.sub(r"\s+", " ", m4.group(0))
    inline = ("dx->ts_wrap.consume = 0; if (0 == dx->ts_pes_todo) { const uint8_t *p; unsigned int left; p = dx->pes_buffer; "
              "left = dx->ts_pes_bp - dx->pes_buffer; if (0) log_block (dx, p, left); if (!valid_vbi_pes_packet_header (dx, p)) { "
              "dx->new_frame = TRUE; dx->ts_frame_todo = 0; if (0) { err = VBI_ERR_STREAM_SYNTAX; goto error_return; } else { continue; } } "
              "dx->ts_frame_bp = dx->pes_buffer + 46; dx->ts_frame_todo = left - 46; "
              "dx->frame.n_data_units_extracted_from_packet = 0; } }")
    call_a = "dx->ts_wrap.consume = 0; if (0 == dx->ts_pes_todo) { ts_pes_packet_complete (dx); } }"
    call_e = ("dx->ts_wrap.lookahead = TS_HEADER_LOOKAHEAD - lookahead; } if (0 == dx->ts_pes_todo) { ts_pes_packet_complete (dx); } "
              "continue; skip_ts_pes_packet:")
    end_old = "dx->ts_wrap.lookahead = TS_HEADER_LOOKAHEAD - lookahead; } continue; skip_ts_pes_packet:"
    m5 = re.search(r"\nts_pes_packet_complete\s*\(.*?\n\}\n", src, flags=re.S)
    helper = re.sub(r"\s+", " ", m5.group(0)) if m5 else ""
    helper_ok = ("{ const uint8_t *p; unsigned int left; p = dx->pes_buffer; left = dx->ts_pes_bp - dx->pes_buffer; "
                 "if (0) log_block (dx, p, left); if (!valid_vbi_pes_packet_header (dx, p)) { dx->new_frame = TRUE; "
                 "dx->ts_frame_todo = 0; return; } dx->ts_frame_bp = dx->pes_buffer + 46; dx->ts_frame_todo = left - 46; "
                 "dx->frame.n_data_units_extracted_from_packet = 0; }") in helper
    if inline in body4 and end_old in body4 and "ts_pes_packet_complete" not in src:
        flag4 = "false"
    elif call_a in body4 and call_e in body4 and helper_ok and body4.count("ts_pes_packet_complete") == 2:
        flag4 = "true"
    else:
        raise SystemExit("gen_demux: the 'PES packet complete' step of demux_ts_packet has an unknown shape; "
                         "re-read the code and update lean/ZvbiModel/Demux/Ts.lean tsPesDone / tsCopy")
    # demux_ts_packet: the error exit `bad_ts_packet_return` (a third copy of the ts_buffer bookkeeping) is reached
    # only from `if (0) { err = VBI_ERR_...; goto bad_ts_packet_return; }` - dead code the model leaves out
    n_goto = body4.count("goto bad_ts_packet_return;")
    n_dead = len(re.findall(r"if \(0\) \{ err = VBI_ERR_\w+; goto bad_ts_packet_return; \} else \{", body4))
    if "bad_ts_packet_return:" not in body4 and n_goto == 0:
        flag5 = "true"
    else:
        flag5 = "true" if (n_goto > 0 and n_goto == n_dead) else "false"
    # dx->ts_continuity holds -1 (unknown) or b3 + 1 with b3 a uint8_t: never 0
    stores = set(re.sub(r"\s+", " ", x).strip() for x in re.findall(r"dx->ts_continuity\s*=(?!=)([^;]*);", src))
    flag6 = "true" if (stores == {"-1", "b3 + 1"} and "uint8_t b1, b3;" in body4 and "b3 = p[3];" in body4) else "false"
    text = ("-- generated by translate/gen_demux.py from src/dvb_demux.c; do not edit\n"
            "namespace Zvbi.Gen\n\n"
            "/-- `demux_pes_packet_frame`: with `callback == NULL` a frame without lines is skipped\n"
            "(`continue`) instead of returning `VBI_ERR_CALLBACK` (fix dvb-demux-cor-livelock present) -/\n"
            "def demuxCorSkipsEmptyFrame : Bool := %s\n\n"
            "/-- `demux_pes_packet`: an error in a data unit discards the lines collected so far\n"
            "(`dx->new_frame = TRUE`); false while the test reads `err < 0` (fix dvb-demux-pes-discard absent) -/\n"
            "def demuxPesDiscardsOnError : Bool := %s\n\n"
            "/-- `line_address`: `f->sp >= f->sliced_end` is tested where the slot is allocated, after the new-frame\n"
            "tests of both branches (fix dvb-demux-full-frame present); false while it is the first statement -/\n"
            "def demuxLateOverflowTest : Bool := %s\n\n"
            "/-- `demux_ts_packet`: `ts_pes_packet_complete ()` is also called at the end of the header evaluation of a\n"
            "TS packet (fix dvb-demux-ts-first-packet present); false while the step is inline in the copy loop only -/\n"
            "def demuxTsCompletesInHeader : Bool := %s\n\nend Zvbi.Gen\n" % (flag, flag2, flag3, flag4))
    text2 = ("-- generated by translate/gen_demux.py from src/dvb_demux.c; do not edit\n"
             "namespace Zvbi.Gen\n\n"
             "/-- `demux_ts_packet`: every `goto bad_ts_packet_return` stands in an `if (0) { ... }` block, so the error exit\n"
             "with its own copy of the `ts_buffer` bookkeeping is unreachable (the model has no such path) -/\n"
             "def demuxTsErrorExitDead : Bool := %s\n\n"
             "/-- `dx->ts_continuity` is assigned `-1` and `b3 + 1` (`uint8_t b3 = p[3]`) and nothing else -/\n"
             "def demuxTsContinuityMinus1OrB3Plus1 : Bool := %s\n\nend Zvbi.Gen\n" % (flag5, flag6))
    if not os.path.exists(OUT2) or open(OUT2).read() != text2:
        open(OUT2, "w").write(text2)
    if not os.path.exists(OUT) or open(OUT).read() != text:
        open(OUT, "w").write(text)
    print("gen_demux: demuxCorSkipsEmptyFrame = %s demuxPesDiscardsOnError = %s demuxLateOverflowTest = %s "
          "demuxTsCompletesInHeader = %s demuxTsErrorExitDead = %s demuxTsContinuityMinus1OrB3Plus1 = %s"
          % (flag, flag2, flag3, flag4, flag5, flag6))


if __name__ == "__main__":
    main()
