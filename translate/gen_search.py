#!/usr/bin/env python3
"""Translator for component `search` (C17): which of the two source shapes of the statements that read sub-page
number 0x3F7F as VBI_ANY_SUBNO (finding C17-D7 / repair fixes/C17-turn-3f7f.diff) the current /repo has.

Read from the source TEXT of src/cache.c `_vbi_cache_foreach_page` (look-up of the start position) and src/search.c
`vbi_search_next` (forward stop position at a direction change) on every run; comments are stripped and white space
is normalised before the statements are compared.  Output: lean/ZvbiModel/Generated/SearchFlags.lean (written only
when changed), used by the model driver through ZvbiModel/Search/Current.lean and by checks/C17.py (`flags()`).
Anything else than one of the two known shapes in either place, or one place repaired and the other not
(half-applied patch), is an error: the check then reports the property as no longer shown to hold.
"""
import os, re, sys

REPO = os.environ.get("ZVBI_REPO", "/repo")
HERE = os.path.dirname(os.path.abspath(__file__))
OUT = os.path.join(HERE, "..", "lean", "ZvbiModel", "Generated", "SearchFlags.lean")

START_OLD = ("if ((cp = _vbi_cache_get_page (ca, cn, pgno, subno, -1))) { subno = cp->subno; } "
             "else if (VBI_ANY_SUBNO == subno) { cp = NULL; subno = 0; } ps = cache_network_page_stat (cn, pgno);")
START_NEW = ("cp = NULL; if (pgno >= 0x100 && pgno <= 0x8FF) { cp = page_by_pgno (ca, cn, pgno, subno, -1); "
             "if (NULL != cp) cp = cache_page_ref (cp); } ps = cache_network_page_stat (cn, pgno);")
TURN_OLD = "search->stop_subno[0] = (search->start_subno == VBI_ANY_SUBNO) ? 0 : search->start_subno;"
TURN_NEW = "search->stop_subno[0] = search->start_subno;"
# line anchors (finding C17-D8 / repair fixes/C17-line-anchors.diff): the URE_NOTBOL flag of the two page callbacks
FWD_OLD = ("*hp++ = acp->unicode; flags = URE_NOTBOL; } *hp++ = SEPARATOR; flags = 0; } if (first >= hp) return 0; "
           "if (!ure_exec(s->ud, flags, first, hp - first, &ms, &me))")
FWD_NEW = ("*hp++ = acp->unicode; } *hp++ = SEPARATOR; } if (first >= hp) return 0; "
           "if (first > s->haystack && first[-1] != SEPARATOR) flags = URE_NOTBOL; "
           "if (!ure_exec(s->ud, flags, first, hp - first, &ms, &me))")
REV_OLD = "if (!ure_exec(s->ud, (pos > 0) ? (flags | URE_NOTBOL) : flags, s->haystack + pos, hp - s->haystack - pos, &ms1, &me1))"
REV_NEW = ("if (!ure_exec(s->ud, (pos > 0 && s->haystack[pos - 1] != SEPARATOR) ? (flags | URE_NOTBOL) : flags, "
           "s->haystack + pos, hp - s->haystack - pos, &ms1, &me1))")
REV_POS = "pos = (me > pos) ? me : pos + 1;"


def body(path, name):
    src = open(path, encoding="latin-1").read()
    m = re.search(r"\n" + name + r"\s*\(.*?\n}\n", src, flags=re.S)
    if not m:
        raise SystemExit("gen_search: %s not found in %s" % (name, path))
    b = re.sub(r"/\*.*?\*/", " ", m.group(0), flags=re.S)
    return re.sub(r"\s+", " ", b)


def anchors(repo=None):
    """-> lineAnchors: search_page_fwd / search_page_rev compute URE_NOTBOL from the character in front of the text
    they hand to ure_exec (fixes/C17-line-anchors.diff); False = as found (C17-D8).  Unknown or half-applied = error.
    The ure.c half of that diff is read by translate/gen_ure.py; checks/C17.py refuses one half without the other."""
    repo = repo or REPO
    f = body(os.path.join(repo, "src", "search.c"), "search_page_fwd")
    r = body(os.path.join(repo, "src", "search.c"), "search_page_rev")
    fo, fn = FWD_OLD in f, FWD_NEW in f
    ro, rn = REV_OLD in r, REV_NEW in r
    if fo == fn:
        raise SystemExit("gen_search: flags of the ure_exec call in search_page_fwd not recognised")
    if ro == rn:
        raise SystemExit("gen_search: flags of the ure_exec call in search_page_rev not recognised")
    if REV_POS not in r or "flags = URE_NOTEOL; } *hp++ = SEPARATOR; flags = 0; }" not in r:
        raise SystemExit("gen_search: search_page_rev: URE_NOTEOL bookkeeping / `pos` rule (b5116c9) not recognised")
    if fn != rn:
        raise SystemExit("gen_search: half-applied fixes/C17-line-anchors.diff (search_page_fwd %s, search_page_rev %s)"
                         % ("repaired" if fn else "as found", "repaired" if rn else "as found"))
    return fn


def flags(repo=None):
    """-> (walkStartExact, turnStopKeepsSubno); raises SystemExit on an unknown or half-applied shape"""
    repo = repo or REPO
    w = body(os.path.join(repo, "src", "cache.c"), "_vbi_cache_foreach_page")
    n = body(os.path.join(repo, "src", "search.c"), "vbi_search_next")
    so, sn = START_OLD in w, START_NEW in w
    to, tn = TURN_OLD in n, TURN_NEW in n
    if so == sn:
        raise SystemExit("gen_search: start look-up of _vbi_cache_foreach_page not recognised (neither / both of the known shapes)")
    if to == tn:
        raise SystemExit("gen_search: stop_subno[0] statement of vbi_search_next (direction change) not recognised")
    if sn != tn:
        raise SystemExit("gen_search: half-applied repair of C17-D7: _vbi_cache_foreach_page start look-up is %s but "
                         "vbi_search_next direction change is %s (fixes/C17-turn-3f7f.diff changes both)"
                         % ("exact" if sn else "through _vbi_cache_get_page", "repaired" if tn else "unrepaired"))
    return sn, tn


def main():
    sn, tn = flags()
    an = anchors()
    text = "\n".join([
        "-- GENERATED by translate/gen_search.py from src/cache.c, src/search.c - do not edit",
        "namespace Zvbi.Gen.Search", "",
        "/-- _vbi_cache_foreach_page looks up its START position exactly (page_by_pgno behind the page number range test);",
        "    false = through _vbi_cache_get_page, which reads sub-page number 0x3F7F as VBI_ANY_SUBNO -/",
        "def walkStartExact : Bool := %s" % ("true" if sn else "false"),
        "/-- vbi_search_next, direction change: stop_subno[0] = start_subno;",
        "    false = (start_subno == VBI_ANY_SUBNO) ? 0 : start_subno -/",
        "def turnStopKeepsSubno : Bool := %s" % ("true" if tn else "false"),
        "/-- search_page_fwd / search_page_rev hand ure_exec URE_NOTBOL iff the text begins inside a row",
        "    (`first[-1] != SEPARATOR`, `haystack[pos - 1] != SEPARATOR`); false = search_page_fwd always 0,",
        "    search_page_rev URE_NOTBOL for every pos > 0 (finding C17-D8) -/",
        "def lineAnchors : Bool := %s" % ("true" if an else "false"),
        "", "end Zvbi.Gen.Search", ""])
    old = open(OUT).read() if os.path.exists(OUT) else None
    if old != text:
        os.makedirs(os.path.dirname(OUT), exist_ok=True)
        open(OUT, "w").write(text)
        print("SearchFlags.lean changed")
    else:
        print("SearchFlags.lean unchanged")


if __name__ == "__main__":
    main()
