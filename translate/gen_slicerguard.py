#!/usr/bin/env python3
"""Translator for the size tests of the public bit slicer API (C05).

`vbi3_bit_slicer_slice()` and `vbi3_bit_slicer_slice_with_points()` (src/bit_slicer.c) refuse an
output buffer that is too small for the payload, and `..._with_points()` additionally limits what it
stores in the caller's points array.  Which arithmetic the *current* source uses is determined here
and written to `lean/ZvbiModel/Generated/SlicerGuard.lean` (only when it changed); the model
(`Slicer/BufModel.lean`, `Driver/Slicer.lean`) follows these facts, so the check passes before and
after `fixes/C05-slice-buffer-size.diff` / `fixes/C05-points-bound.diff` are applied.

Nothing is decided from the source text: bit_slicer.c is compiled into a probe and
* the buffer test is *evaluated* on a grid of (endian, payload, buffer_size) with a stub slicer
  function and compared with the two known forms
    bits  : refuse iff payload > (buffer_size * 8) mod 2^32        (zvbi 0.2.x as released)
    bytes : refuse iff (endian >= 2 ? (payload + 7) / 8 : payload) > buffer_size
  anything else is an error (the model would have to be extended);
* the points limit is observed by running both slicers that collect points (the Y8 template and the
  low-pass slicer) on a square wave with max_points = total_bits and an oversized array.
The text of the conditions is copied into the generated file as documentation only.  The
correspondence check validates the result again (ops `bslice`) on every run.
"""
import os, re, subprocess, sys, tempfile

REPO = os.environ.get("ZVBI_REPO", "/repo")
HERE = os.path.dirname(os.path.abspath(__file__))
OUT = os.path.join(HERE, "..", "lean", "ZvbiModel", "Generated", "SlicerGuard.lean")
U32 = 1 << 32

PROBE = r'''
#include <stdio.h>
#include <stdarg.h>
#include <string.h>
#include <stdlib.h>
#include "src/bit_slicer.c"

static int reached;
static vbi_bool
stub (vbi3_bit_slicer *bs, uint8_t *buffer, vbi3_bit_slicer_point *points, unsigned int *n_points, const uint8_t *raw)
{ (void) bs; (void) buffer; (void) points; (void) n_points; (void) raw; reached = 1; return TRUE; }

static const unsigned int payloads[] = { 0, 1, 7, 8, 9, 13, 16, 40, 41, 42, 43, 48, 49, 336, 337, 32767 };
static const unsigned int sizes[] = { 0, 1, 2, 5, 6, 7, 41, 42, 43, 56, 4095, 4096, 0x1FFFFFFFu, 0x20000000u, 0x20000001u, 0x80000000u, 0xFFFFFFFFu };

/* how far into an oversized points array does slice_with_points write when told max_points = total_bits? */
static void
points_probe (const char *tag, unsigned int rate, unsigned int spl, unsigned int cri_bits, unsigned int cri_rate,
	      unsigned int frc_bits, unsigned int payload_bits, unsigned int payload_rate, unsigned int period)
{
	vbi3_bit_slicer bs; uint8_t *raw, out[8192]; vbi3_bit_slicer_point *pts; unsigned int n, np = 0, i, pw = 0, max;
	memset (&bs, 0, sizeof bs);
	bs.func = null_function;
	if (!vbi3_bit_slicer_set_params (&bs, VBI_PIXFMT_YUV420, rate, 0, spl, 0x5555, 0, cri_bits, cri_rate, ~0u,
					 0x15555, frc_bits, payload_bits, payload_rate, VBI3_MODULATION_NRZ_LSB)) {
		printf ("points %s setparams-failed\n", tag); return;
	}
	/* cri_mask = 0 would match at the first tick; an FRC that never matches keeps the search running: use a
	   CRI pattern the square wave cannot produce instead */
	bs.cri = 0x7; bs.cri_mask = 0xF;
	n = bs.cri_samples * 4 + bs.total_bits + 64;
	raw = calloc (1, spl + 65536);
	for (i = 0; i < spl; ++i) raw[i] = ((i / period) & 1) ? 200 : 40;
	pts = malloc (n * sizeof *pts);
	memset (pts, 0xA5, n * sizeof *pts);
	max = bs.total_bits;
	vbi3_bit_slicer_slice_with_points (&bs, out, sizeof out, pts, &np, max, raw);
	for (i = 0; i < n; ++i) {
		const uint8_t *u = (const uint8_t *) &pts[i]; unsigned int m;
		for (m = 0; m < sizeof *pts; ++m) if (u[m] != 0xA5) pw = i + 1;
	}
	printf ("points %s %s max=%u written=%u n_points=%u\n", tag, bs.func == low_pass_bit_slicer_Y8 ? "lowpass" : "core", max, pw, np);
	free (pts); free (raw);
}

int main (void)
{
	unsigned int e, i, j; uint8_t buf[8], raw[8];
	for (e = 0; e < 4; ++e)
		for (i = 0; i < sizeof payloads / sizeof payloads[0]; ++i)
			for (j = 0; j < sizeof sizes / sizeof sizes[0]; ++j) {
				vbi3_bit_slicer bs; vbi3_bit_slicer_point pt[4]; unsigned int np;
				memset (&bs, 0, sizeof bs);
				bs.func = stub; bs.endian = e; bs.payload = payloads[i]; bs.total_bits = 0;
				reached = 0; vbi3_bit_slicer_slice (&bs, buf, sizes[j], raw);
				printf ("guard s %u %u %u %d\n", e, payloads[i], sizes[j], !reached);
				reached = 0; vbi3_bit_slicer_slice_with_points (&bs, buf, sizes[j], pt, &np, 4, raw);
				printf ("guard p %u %u %u %d\n", e, payloads[i], sizes[j], !reached);
			}
	/* Teletext B at 13.5 MHz, 2048 samples: square wave near the CRI frequency (template slicer) */
	points_probe ("ttx", 13500000, 2048, 18, 6937500, 6, 336, 6937500, 2);
	/* Caption 525 at 27 MHz, 8000 samples: low-pass slicer */
	points_probe ("cc", 27000000, 8000, 4, 1006976, 0, 16, 503488, 20);
	return 0;
}

/* the only externals bit_slicer.c needs besides libc */
void
_vbi_log_printf (vbi_log_fn *log_fn, void *user_data, vbi_log_mask level, const char *source_file,
		 const char *context, const char *templ, ...)
{ (void) log_fn; (void) user_data; (void) level; (void) source_file; (void) context; (void) templ; }
'''


def guard_text(src, fn):
    """text of the condition in front of the 'buffer_size' warning of function `fn` (documentation only)"""
    m = re.search(r"\n" + re.escape(fn) + r"\s*\(", src)
    if not m:
        return "?"
    body = src[m.end():]
    end = body.find("\n}\n")
    body = body[:end if end > 0 else len(body)]
    w = body.find('"buffer_size')
    if w < 0:
        return "?"
    head = body[:w]
    i = head.rfind("if (")
    if i < 0:
        return "?"
    j, depth = i + 3, 0
    while j < len(head):
        if head[j] == "(":
            depth += 1
        elif head[j] == ")":
            depth -= 1
            if depth == 0:
                break
        j += 1
    return re.sub(r"\s+", " ", head[i + 4:j]).strip().replace('"', "'")


def bits_form(e, p, s):
    return p > (s * 8) % U32


def bytes_form(e, p, s):
    return ((p + 7) // 8 if e >= 2 else p) > s


def main():
    src = open(os.path.join(REPO, "src", "bit_slicer.c")).read()
    with tempfile.TemporaryDirectory(prefix="gen_slicerguard") as td:
        c = os.path.join(td, "probe.c")
        exe = os.path.join(td, "probe")
        open(c, "w").write(PROBE)
        p = subprocess.run(["gcc", "-std=gnu99", "-D_GNU_SOURCE", "-DHAVE_CONFIG_H", "-w", "-O1",
                            "-I" + REPO, "-I" + os.path.join(REPO, "src"), c, "-o", exe, "-lm"],
                           stdout=subprocess.PIPE, stderr=subprocess.STDOUT)
        if p.returncode != 0:
            raise SystemExit("gen_slicerguard: probe does not compile:\n" + p.stdout.decode()[-3000:])
        q = subprocess.run([exe], stdout=subprocess.PIPE, stderr=subprocess.STDOUT, timeout=120)
        if q.returncode != 0:
            raise SystemExit("gen_slicerguard: probe failed (%d):\n%s" % (q.returncode, q.stdout.decode()[-2000:]))
        out = q.stdout.decode()
    obs = {"s": [], "p": []}
    pts = {}
    for line in out.split("\n"):
        f = line.split()
        if f[:1] == ["guard"]:
            obs[f[1]].append((int(f[2]), int(f[3]), int(f[4]), f[5] == "1"))
        elif f[:1] == ["points"]:
            if len(f) < 6:
                raise SystemExit("gen_slicerguard: " + line)
            kv = dict(t.split("=") for t in f[3:])
            pts[f[1]] = (f[2], int(kv["max"]), int(kv["written"]), int(kv["n_points"]))
    res = {}
    for which in ("s", "p"):
        o = obs[which]
        if len(o) < 500:
            raise SystemExit("gen_slicerguard: probe printed %d guard rows" % len(o))
        is_bits = all(r == bits_form(e, p, s) for e, p, s, r in o)
        is_bytes = all(r == bytes_form(e, p, s) for e, p, s, r in o)
        if is_bits == is_bytes:
            bad = [(e, p, s, r) for e, p, s, r in o if r != bytes_form(e, p, s)][:3]
            raise SystemExit("gen_slicerguard: the buffer test of %s is neither of the two known forms, e.g. "
                             "(endian, payload, buffer_size, refused) = %r" % ("slice" if which == "s" else "slice_with_points", bad))
        res[which] = is_bytes
    if set(pts) != {"ttx", "cc"} or pts["ttx"][0] != "core" or pts["cc"][0] != "lowpass":
        raise SystemExit("gen_slicerguard: points probe did not select the expected slicers: %r" % (pts,))
    bounded = {k: v[2] <= v[1] for k, v in pts.items()}
    # an unbounded search stores several hundred points here; "a few more than max" would be something else
    for k in pts:
        if not bounded[k] and pts[k][2] <= pts[k][1] + 50:
            raise SystemExit("gen_slicerguard: points probe inconclusive: %r" % (pts,))
    L = []
    L.append("-- GENERATED by translate/gen_slicerguard.py from src/bit_slicer.c - do not edit")
    L.append("namespace Zvbi.Generated.SlicerGuard")
    L.append("")
    L.append("/-- the buffer test of `vbi3_bit_slicer_slice` as written (documentation; the facts below are measured on the compiled code) -/")
    L.append('def sliceGuardText : String := "%s"' % guard_text(src, "vbi3_bit_slicer_slice"))
    L.append('def withPointsGuardText : String := "%s"' % guard_text(src, "vbi3_bit_slicer_slice_with_points"))
    L.append("")
    L.append("/-- `true` iff `vbi3_bit_slicer_slice` refuses exactly when the payload BYTES exceed `buffer_size`")
    L.append("    (fixes/C05-slice-buffer-size.diff); `false` = `bs->payload > buffer_size * 8` as released, where")
    L.append("    `bs->payload` counts bytes in octet mode -/")
    L.append("def sliceGuardInBytes : Bool := %s" % ("true" if res["s"] else "false"))
    L.append("/-- same for `vbi3_bit_slicer_slice_with_points` -/")
    L.append("def withPointsGuardInBytes : Bool := %s" % ("true" if res["p"] else "false"))
    L.append("")
    L.append("/-- `true` iff the CRI search of the Y8 template slicer in `vbi3_bit_slicer_slice_with_points` stores its")
    L.append("    sampling points only in the room `max_points` leaves beside the FRC and payload bits")
    L.append("    (fixes/C05-points-bound.diff); `false` = one point per recovered clock tick, unchecked (F17) -/")
    L.append("def criPointsBoundedCore : Bool := %s" % ("true" if bounded["ttx"] else "false"))
    L.append("/-- same for `low_pass_bit_slicer_Y8` -/")
    L.append("def criPointsBoundedLowpass : Bool := %s" % ("true" if bounded["cc"] else "false"))
    L.append("")
    L.append("end Zvbi.Generated.SlicerGuard")
    text = "\n".join(L) + "\n"
    old = open(OUT).read() if os.path.exists(OUT) else None
    if old != text:
        os.makedirs(os.path.dirname(OUT), exist_ok=True)
        open(OUT, "w").write(text)
        print("gen_slicerguard: wrote SlicerGuard.lean (slice %s, with_points %s, cri points %s/%s)" % (
            "bytes" if res["s"] else "bits", "bytes" if res["p"] else "bits",
            "bounded" if bounded["ttx"] else "unbounded", "bounded" if bounded["cc"] else "unbounded"))
    else:
        print("gen_slicerguard: unchanged")


if __name__ == "__main__":
    main()
