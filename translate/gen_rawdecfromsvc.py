#!/usr/bin/env python3
"""Translator for component `rawdec` (C04, round 5): `_vbi_sampling_par_from_services_log()` of src/sampling_par.c.
Writes lean/ZvbiModel/Generated/RawdecFromSvc.lean (only when changed).

1. The per-row `double` arithmetic (`signal`, `offset`, `samples` at the fixed `sp->sampling_rate`) is not modelled but
   EVALUATED: the three assignment statements and the two initialisations (`sp->sampling_rate = ...`, `sp->offset = ...`)
   are cut out of the function body and compiled into a probe that runs them over `_vbi_service_table` - the generated
   `fsConsts` are what the C code computes with this compiler's `double`.
2. The shape of the scan line range update inside `for (i = 0; i < 2; ++i)`:
   released   start = MIN (start, first); count = MAX (start + count, last + 1) - start;   (start ALREADY lowered: the
              old end `start + count` is lost when `first` is below the old start)            -> fsEndFixed = false
   repaired   (fixes/sampling-par-from-services-range.diff) the end is computed before start is lowered -> true
   anything else -> fsKnown = false (the theorems about /repo's shape stop compiling).
"""
import os, re, subprocess, sys, tempfile
VERIF = os.path.dirname(os.path.dirname(os.path.abspath(__file__)))
REPO = os.environ.get("ZVBI_REPO", "/repo")
sys.path.insert(0, os.path.dirname(os.path.abspath(__file__)))
from gen_slicer import cut_table  # noqa: E402


def strip_comments(s):
    return re.sub(r"/\*.*?\*/", " ", s, flags=re.S)


def norm(s):
    return re.sub(r"\s+", " ", s).strip()


def func_body(src, name):
    m = re.search(r"^" + re.escape(name) + r"\s*\(.*?^}\n", src, flags=re.S | re.M)
    return m.group(0) if m else ""


def lean_str(s):
    return '"' + s.replace("\\", "\\\\").replace('"', '\\"') + '"'


RELEASED = ("sp->start[i]=MIN((unsignedint)sp->start[i],(unsignedint)par->first[i]);"
            "sp->count[i]=MAX((unsignedint)sp->start[i]+sp->count[i],(unsignedint)par->last[i]+1)-sp->start[i];")
FIXED = ("unsignedintend;"
         "end=(sp->count[i]>0)?(unsignedint)sp->start[i]+sp->count[i]:0;"
         "end=MAX(end,(unsignedint)par->last[i]+1);"
         "sp->start[i]=MIN((unsignedint)sp->start[i],(unsignedint)par->first[i]);"
         "sp->count[i]=end-sp->start[i];")


def main():
    sp_c = strip_comments(open(os.path.join(REPO, "src", "sampling_par.c")).read())
    rd_c = open(os.path.join(REPO, "src", "raw_decoder.c")).read()
    body = func_body(sp_c, "_vbi_sampling_par_from_services_log")
    known = True

    def stmt(pat):
        nonlocal known
        m = re.search(pat, body, flags=re.S)
        if not m:
            known = False
            return None
        return norm(m.group(0))
    s_rate = stmt(r"sp->sampling_rate\s*=\s*[^;]*;")
    s_off0 = stmt(r"sp->offset\s*=\s*\(int\)[^;]*;")
    s_sig = stmt(r"\bsignal\s*=\s*[^;]*;")
    s_off = stmt(r"(?<![>\w.])offset\s*=\s*\(int\)[^;]*;")
    s_smp = stmt(r"\bsamples\s*=\s*\(int\)[^;]*;")
    starts = re.findall(r"sp->start\[[01]\]\s*=\s*(\d+)\s*;", body)
    start0 = 30000
    if len(starts) >= 2 and len(set(starts[:2])) == 1:
        start0 = int(starts[0])
    else:
        known = False
    m = re.search(r"if\s*\(\s*par->first\[i\]\s*>\s*0\s*&&\s*par->last\[i\]\s*>\s*0\s*\)\s*\{(.*?)\}\s*rservices\s*\|=", body, flags=re.S)
    rng = norm(m.group(1)) if m else "<range update not found>"
    r = rng.replace(" ", "")
    if r == RELEASED:
        fixed = False
    elif r == FIXED:
        fixed = True
    else:
        fixed, known = False, False
    rate, off0, consts = 27000000, 1728, []
    if None not in (s_rate, s_off0, s_sig, s_off, s_smp):
        probe = r'''
#include <stdio.h>
#include "src/misc.h"
#include "src/decoder.h"
#include "src/raw_decoder.h"
#include "src/sliced.h"
static const _vbi_service_par T[] = %s;
int main (void)
{
	const _vbi_service_par *par;
	struct { int sampling_rate; int offset; } S, *sp = &S;
	%s
	%s
	printf ("init %%d %%d\n", sp->sampling_rate, sp->offset);
	for (par = T; par->id; ++par) {
		double signal; int offset; unsigned int samples;
		%s
		%s
		%s
		printf ("fs %%d %%u\n", offset, samples);
	}
	return 0;
}
''' % (cut_table(rd_c), s_rate, s_off0, s_sig, s_off, s_smp)
        with tempfile.TemporaryDirectory(prefix="gen_fromsvc") as td:
            src = os.path.join(td, "probe.c")
            exe = os.path.join(td, "probe")
            open(src, "w").write(probe)
            p = subprocess.run(["gcc", "-std=gnu99", "-D_GNU_SOURCE", "-DHAVE_CONFIG_H", "-w",
                                "-I" + REPO, "-I" + os.path.join(REPO, "src"), src, "-o", exe],
                               stdout=subprocess.PIPE, stderr=subprocess.STDOUT)
            if p.returncode != 0:
                known = False
            else:
                out = subprocess.run([exe], stdout=subprocess.PIPE).stdout.decode()
                for line in out.split("\n"):
                    f = line.split()
                    if f[:1] == ["init"]:
                        rate, off0 = int(f[1]), int(f[2])
                    elif f[:1] == ["fs"]:
                        if int(f[1]) < 0:
                            known = False
                        consts.append((max(int(f[1]), 0), int(f[2])))
    if not consts:
        known = False

    def bl(x):
        return "true" if x else "false"
    text = f"""-- GENERATED by translate/gen_rawdecfromsvc.py from src/sampling_par.c, src/raw_decoder.c - do not edit
namespace Zvbi.Generated.RawdecFromSvc

/-- `sp->sampling_rate` set by `_vbi_sampling_par_from_services_log` -/
def fsRate : Nat := {rate}
/-- initial `sp->offset` -/
def fsOffset0 : Nat := {off0}
/-- initial `sp->start[0]`, `sp->start[1]` -/
def fsStart0 : Nat := {start0}
/-- per row of `_vbi_service_table`: the locals `offset` and `samples` as the C code computes them (`double`) -/
def fsConsts : List (Nat × Nat) := [{", ".join("(%d, %d)" % c for c in consts)}]
/-- the scan line range update computes the end of the range before it lowers the start -/
def fsEndFixed : Bool := {bl(fixed)}
/-- every statement the model depends on was found in a known form -/
def fsKnown : Bool := {bl(known)}
def fsRangeText : String := {lean_str(rng)}

end Zvbi.Generated.RawdecFromSvc
"""
    out = os.path.join(VERIF, "lean", "ZvbiModel", "Generated", "RawdecFromSvc.lean")
    old = open(out).read() if os.path.exists(out) else None
    if old != text:
        open(out, "w").write(text)
        print("gen_rawdecfromsvc: wrote", out)
    return 0


if __name__ == "__main__":
    sys.exit(main())
