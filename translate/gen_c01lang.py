#!/usr/bin/env python3
"""Translator for the SUBTITLE LANGUAGE obligation of C01: packet.c page_language() and every reader / writer of
`struct ttx_page_stat.charset_code` -> lean/ZvbiModel/Generated/C01Lang.lean.

The obligation (Props/C01Lang.lean): every value stored in `ps->charset_code` is 0xFF or a valid index of
vbi_font_descriptors[] (VALID_CHARACTER_SET), for every X/28 / M/29 designation and every national option; the
readers (vbi.c vbi_classify_page indexes the table after a `!= 0xFF` test only) never leave the table.

What is read from the CURRENT source:
* page_language(): the statements after `ext = ...` are matched against the two shapes the model follows
  (`validated`: `lang = -1`, both candidates pass VALID_CHARACTER_SET before they are returned; `rawFallback`: the
  national variant is tried first and the raw designation is returned unvalidated - seeded C01-k).  Any other text =
  "not recognised" = the check fails.
* lang.h VALID_CHARACTER_SET (operator, bound, the `.G0` test), vt.h vbi_ttx_charset_from_code.
* EVERY occurrence of `->charset_code` / `.charset_code` that is not the ttx_extension array (`charset_code[`) in
  src/*.c, src/*.h: the writers (three `= page_language (`, the store_lop one guarded by `== 0xFF`, the init `= 0xFF`),
  the readers (vbi.c: `!= 0xFF` test + table index; cache.c: cast, `0xFF ==` test, vbi_ttx_charset_from_code; the
  debug dump).  A new reader or writer anywhere = "not recognised".
* the writers of ttx_extension.charset_code[0] (get_bits width, default_region guard).
* C probe (#includes lang.c): extent and G0 column of vbi_font_descriptors[], width of the charset_code field."""
import os, re, subprocess, sys, tempfile

REPO = os.environ.get("ZVBI_REPO", "/repo")
HERE = os.path.dirname(os.path.abspath(__file__))
OUT = os.path.join(HERE, "..", "lean", "ZvbiModel", "Generated", "C01Lang.lean")


def die(msg):
    sys.exit("gen_c01lang: " + msg)


def strip_comments(s):
    s = re.sub(r"/\*.*?\*/", " ", s, flags=re.S)
    return re.sub(r"//[^\n]*", " ", s)


def norm(s):
    return re.sub(r"\s+", " ", s).strip()


def read(name):
    try:
        return strip_comments(open(os.path.join(REPO, "src", name), encoding="latin-1").read())
    except OSError as e:
        die(str(e))


def function_body(src, name):
    m = re.search(r"^" + re.escape(name) + r"\s*\(", src, flags=re.M)
    if not m:
        die("definition of %s not found" % name)
    i = src.index("{", m.end())
    k, depth = i + 1, 1
    while k < len(src) and depth:
        depth += {"{": 1, "}": -1}.get(src[k], 0)
        k += 1
    return norm(src[i + 1:k - 1])


pkt, vbi_c, cache_c, lang_h, vt_h = read("packet.c"), read("vbi.c"), read("cache.c"), read("lang.h"), read("vt.h")

# ---------------------------------------------------------------------------------------------------- VALID_CHARACTER_SET
m = re.search(r"#define\s+VALID_CHARACTER_SET\s*\(\s*n\s*\)\s*\(\s*\(n\)\s*(<|<=)\s*(\d+)\s*&&\s*vbi_font_descriptors\s*\[\s*n\s*\]\s*\.\s*G0\s*\)", lang_h)
if not m:
    die("lang.h VALID_CHARACTER_SET: not recognised")
valid_op, valid_n = m.group(1), int(m.group(2))
m = re.search(r"extern\s+struct\s+vbi_font_descr\s+vbi_font_descriptors\s*\[\s*(\d+)\s*\]", lang_h)
if not m:
    die("lang.h declaration of vbi_font_descriptors[]: not recognised")
font_len_decl = int(m.group(1))
if not re.search(r"vbi_ttx_charset_from_code\s*\(\s*vbi_ttx_charset_code\s+code\s*\)\s*\{\s*if\s*\(\s*VALID_CHARACTER_SET\s*\(\s*code\s*\)\s*\)\s*"
                 r"return\s+vbi_font_descriptors\s*\+\s*code\s*;\s*else\s+return\s+NULL\s*;\s*\}", norm(vt_h)):
    die("vt.h vbi_ttx_charset_from_code: not recognised")

# ---------------------------------------------------------------------------------------------------- page_language
body = function_body(pkt, "page_language")
HEAD = ("const struct ttx_magazine *mag; const struct ttx_extension *ext; int charset_code; %s"
        "if (vtp) { if (vtp->function != PAGE_FUNCTION_LOP) return %s; pgno = vtp->pgno; national = vtp->national; } "
        "if (vt->max_level <= VBI_WST_LEVEL_1p5) mag = &vt->default_magazine; else mag = cache_network_const_magazine (cn, pgno); "
        "ext = (NULL != vtp && 0 != vtp->x28_designations) ? &vtp->data.ext_lop.ext : &mag->extension; ")
SHAPES = {
    "validated": HEAD % ("int lang = -1; ", "lang") +
                 "charset_code = ext->charset_code[0]; if (VALID_CHARACTER_SET(charset_code)) lang = charset_code; "
                 "charset_code = (charset_code & ~7) + national; if (VALID_CHARACTER_SET(charset_code)) lang = charset_code; return lang;",
    "rawFallback": HEAD % ("", "-1") +
                   "charset_code = (ext->charset_code[0] & ~7) + national; if (!VALID_CHARACTER_SET(charset_code)) "
                   "charset_code = ext->charset_code[0]; return charset_code;",
}
shape = next((k for k, v in SHAPES.items() if norm(v) == body), None)
if shape is None:
    die("page_language: not recognised (the statements are neither the validated nor the raw-fallback shape the model follows)")
if not re.search(r"static int page_language\s*\(", norm(pkt)):
    die("page_language: return type is not int")
m = re.search(r"cvtp->national = vbi_rev8 \(flags\) & (\d+);", norm(pkt))
if not m:
    die("packet.c `cvtp->national = vbi_rev8 (flags) & 7`: not recognised")
national_mask = int(m.group(1))

# ---------------------------------------------------------------------------------------------------- readers / writers
occ = {}
for f in sorted(os.listdir(os.path.join(REPO, "src"))):
    if not f.endswith((".c", ".h")):
        continue
    t = norm(read(f))
    for mm in re.finditer(r"(?:->|\.)charset_code\b(?!\s*\[)", t):
        occ.setdefault(f, []).append(t[max(0, mm.start() - 40):mm.end() + 60])
# the struct member declarations do not match (no -> / .); expected files and counts:
EXPECT = {"packet.c": 5, "vbi.c": 2, "cache.c": 2}
got = {f: len(v) for f, v in occ.items()}
if got != EXPECT:
    die("readers / writers of ttx_page_stat.charset_code: not recognised (found %r, the model follows %r)" % (got, EXPECT))
P = norm(pkt)
n_store = len(re.findall(r"ps->charset_code = page_language \(", P))
if n_store != 3:
    die("packet.c: %d stores `ps->charset_code = page_language (...)`, the model follows 3 (parse_mip_page, parse_btt, store_lop)" % n_store)
m = re.search(r"if \(ps->charset_code == (0x[0-9A-Fa-f]+|\d+)\) ps->charset_code = page_language \(&vbi->vt, vbi->cn, vtp, 0, 0\);", P)
if not m:
    die("packet.c store_lop `if (ps->charset_code == 0xFF) ps->charset_code = page_language (...)`: not recognised")
store_lop_guard = int(m.group(1), 0)
m = re.search(r"ps->page_type = VBI_UNKNOWN_PAGE; ps->charset_code = (0x[0-9A-Fa-f]+|\d+);", P)
if not m:
    die("packet.c ttx_page_stat_init `ps->charset_code = 0xFF`: not recognised")
init_code = int(m.group(1), 0)
if not re.search(r"ps->charset_code = page_language \(&vbi->vt, vbi->cn, cp, pgno, code & 7\);", P):
    die("packet.c parse_mip_page `page_language (&vbi->vt, vbi->cn, cp, pgno, code & 7)`: not recognised")
if not re.search(r"if \(NULL != cp\) \{ ps->charset_code = page_language \(&vbi->vt, vbi->cn, cp, 0, 0\); cache_page_unref \(cp\); \}", P):
    die("packet.c parse_btt `if (NULL != cp) { ps->charset_code = page_language (..., cp, 0, 0); ... }`: not recognised")
V = norm(vbi_c)
m = re.search(r"if \(code == VBI_SUBTITLE_PAGE\) \{ if \(ps->charset_code != (0x[0-9A-Fa-f]+|\d+)\) \*language = vbi_font_descriptors\[ps->charset_code\]\.label; \}", V)
if not m:
    die("vbi.c vbi_classify_page `if (ps->charset_code != 0xFF) *language = vbi_font_descriptors[ps->charset_code].label`: not recognised")
classify_guard = int(m.group(1), 0)
C = norm(cache_c)
m = re.search(r"charset_code = \(vbi_ttx_charset_code\) ps1->charset_code; if \((0x[0-9A-Fa-f]+|\d+) == charset_code\) \{ ps->ttx_charset = NULL; \} "
              r"else \{ ps->ttx_charset = vbi_ttx_charset_from_code \(charset_code\); \}", C)
if not m:
    die("cache.c cache_network_get_ttx_page_stat: charset_code block not recognised")
stat_guard = int(m.group(1), 0)
if not re.search(r"vbi_page_type_name \(ps->page_type\), ps->charset_code, ps->subcode,", C):
    die("cache.c cache_page_dump: the second reader of ps->charset_code is not the fprintf argument")

# writers of ttx_extension.charset_code[0]
m = re.search(r"ext->charset_code\[0\] = get_bits \(&bs, (\d+)\); ext->charset_code\[1\] = get_bits \(&bs, (\d+)\);", P)
if not m:
    die("packet.c parse_28_29 `ext->charset_code[0] = get_bits (&bs, 7)`: not recognised")
charset_bits = int(m.group(1))
m = re.search(r"if \(default_region < 0 \|\| default_region > (\d+)\) return;", P)
if not m:
    die("packet.c vbi_teletext_set_default_region guard: not recognised")
region_max = int(m.group(1))
n_ext_w = len(re.findall(r"charset_code\[0\] = ", P))
if n_ext_w != 3:
    die("packet.c: %d writers of ttx_extension.charset_code[0], the model follows 3 (parse_28_29, two in set_default_region)" % n_ext_w)

# ---------------------------------------------------------------------------------------------------- probe
probe = r'''
#include <stdio.h>
#include <stddef.h>
#include "src/vbi.h"
#include "src/cache-priv.h"
#include "src/lang.c"
#define N(a) (sizeof (a) / sizeof ((a)[0]))
int main (void) {
  static struct ttx_page_stat ps; unsigned i;
  printf ("fontLen %zu\n", N (vbi_font_descriptors));
  printf ("codeBits %zu\n", 8 * sizeof (ps.charset_code));
  ps.charset_code = -1; printf ("codeUnsigned %d\n", ps.charset_code > 0);
  printf ("subtitlePage %d\n", (int) VBI_SUBTITLE_PAGE);
  printf ("fontG0");
  for (i = 0; i < N (vbi_font_descriptors); ++i) printf (" %d", vbi_font_descriptors[i].G0 != 0);
  printf ("\n");
  return 0; }
'''
with tempfile.TemporaryDirectory() as d:
    c = os.path.join(d, "p.c")
    open(c, "w").write(probe)
    exe = os.path.join(d, "p")
    r = subprocess.run(["gcc", "-std=gnu99", "-D_GNU_SOURCE", "-DHAVE_CONFIG_H", "-w", "-I" + REPO, "-I" + os.path.join(REPO, "src"), c, "-o", exe],
                       stdout=subprocess.PIPE, stderr=subprocess.STDOUT)
    if r.returncode != 0:
        die("probe does not compile:\n" + r.stdout.decode()[-2000:])
    out = subprocess.run([exe], stdout=subprocess.PIPE).stdout.decode()
vals = {}
for line in out.strip().split("\n"):
    w = line.split()
    vals[w[0]] = [int(x) for x in w[1:]]
if vals["fontLen"][0] != font_len_decl:
    die("lang.h declares vbi_font_descriptors[%d], lang.c defines %d" % (font_len_decl, vals["fontLen"][0]))
if vals["codeUnsigned"][0] != 1:
    die("ttx_page_stat.charset_code is not an unsigned type")

LOP = {"<": "<", "<=": "≤"}
L = ["-- GENERATED by translate/gen_c01lang.py from src/packet.c, src/vbi.c, src/cache.c, src/lang.h, src/vt.h and a C probe (lang.c) - do not edit",
     "namespace Zvbi.Gen.C01Lang", "",
     "/-- the two statement shapes of packet.c page_language() the model follows -/",
     "inductive Shape | validated | rawFallback", "  deriving DecidableEq, Repr", "",
     "/-- shape of page_language() in the current source -/",
     "def pageLanguageShape : Shape := .%s" % shape, "",
     "/-- lang.h: `#define VALID_CHARACTER_SET(n) ((n) %s %d && vbi_font_descriptors[n].G0)` -/" % (valid_op, valid_n),
     "def validInTable (n : Nat) : Bool := decide (n %s %d)" % (LOP[valid_op], valid_n),
     "/-- extent of vbi_font_descriptors[] (lang.c; equals the declaration in lang.h) -/",
     "def fontLen : Nat := %d" % vals["fontLen"][0],
     "/-- `vbi_font_descriptors[i].G0 != 0` for every element of the table -/",
     "def fontHasG0 : List Bool := [%s]" % ", ".join("true" if x else "false" for x in vals["fontG0"]), "",
     "/-- width of `ttx_page_stat.charset_code` (unsigned), the value of ttx_page_stat_init, the tests of the readers / of store_lop -/",
     "def codeBits : Nat := %d" % vals["codeBits"][0],
     "def initCode : Nat := %d" % init_code,
     "def storeLopGuard : Nat := %d" % store_lop_guard,
     "def classifyGuard : Nat := %d" % classify_guard,
     "def statGuard : Nat := %d" % stat_guard, "",
     "/-- parse_28_29: `ext->charset_code[0] = get_bits (&bs, %d)`; set_default_region admits 0 .. %d; `national = vbi_rev8 (flags) & %d`, MIP `code & 7` -/"
     % (charset_bits, region_max, national_mask),
     "def charsetBits : Nat := %d" % charset_bits,
     "def regionMax : Nat := %d" % region_max,
     "def nationalMask : Nat := %d" % national_mask, "",
     "end Zvbi.Gen.C01Lang", ""]
text = "\n".join(L)
old = open(OUT).read() if os.path.exists(OUT) else None
if old != text:
    os.makedirs(os.path.dirname(OUT), exist_ok=True)
    open(OUT, "w").write(text)
    print("gen_c01lang: wrote", OUT)
