#!/usr/bin/env python3
"""C20 translator: /repo/src/{vbi,caption,packet,trigger,wss,decoder}.c -> lean/ZvbiModel/Generated/Locks.lean

For every documented API function of the C20 roles this script emits a control-flow graph whose
edges carry the atomic actions  lock m | unlock m | acc x r/w | callout | tau,  with all callees that
are defined in the scope files inlined (call-site sensitive), plus the annotation "mutexes held at
node n".  Lean re-checks the annotation (`Cfg.annOK`) and decides the lock discipline on the table;
this script is trusted only for the construction of the graph:

  * source = `gcc -E` of the CURRENT tree (same defines as the library build), tokenised, parsed by a
    small statement parser (blocks, if/else, loops, switch with case ranges, goto/labels, return);
  * shared fields = the fixed list VARS below; an access is a postfix chain  p->f.g[i]  whose root
    identifier is a pointer into one of the shared objects (vbi_decoder, vbi_raw_decoder and the
    vbi3_raw_decoder behind rd->pattern).  Pointer provenance is followed through local variables
    and through the parameters of inlined callees;  `&x`, array decay and `sizeof` are not accesses;
  * calls into raw_decoder.c / sampling_par.c (no locking there, asserted below) and to functions
    outside the scope files are summarised: every argument pointing into a shared object is a read
    (const parameter) or a write of that region;
  * a call through a `handler` function pointer is a `callout`.  Where none of the mutexes taken by
    the handler-safe functions (vbi_fetch_cc_page, vbi_channel_switched) is held, the callout is
    followed by "any number of calls of those functions" (the documented re-entrancy); elsewhere the
    callout is emitted with `re = false` and shows up in `badCallouts`.

Also writes .cache/locks_table.json (names, for the check script).  Writes only when changed.
"""
import hashlib, json, os, re, subprocess, sys

VERIF = os.path.dirname(os.path.dirname(os.path.abspath(__file__)))
REPO = os.environ.get("ZVBI_REPO", "/repo")
OUT = os.path.join(VERIF, "lean", "ZvbiModel", "Generated", "Locks.lean")
SIDE = os.path.join(VERIF, ".cache", "locks_table.json")

INLINE_FILES = ["vbi.c", "caption.c", "packet.c", "trigger.c", "wss.c", "decoder.c"]
SUMMARY_FILES = ["raw_decoder.c", "sampling_par.c"]

MUTEXES = ["event", "cc", "chswcd", "rd", "prog_info"]
# mutex member -> name, by (root, path)
MUTEX_LOC = {("vbi", ("cc", "mutex")): "cc", ("vbi", ("chswcd_mutex",)): "chswcd",
             ("vbi", ("event_mutex",)): "event", ("vbi", ("prog_info_mutex",)): "prog_info",
             ("rd", ("mutex",)): "rd"}

# the fixed list of shared fields: (root, path prefix) -> variable; longest prefix wins
VARS = ["cc.channel", "cc.xds", "cc.sub_packet", "cc.itv", "cc.info_cycle", "cc.last", "cc.curr_chan",
        "cc.transp_space", "cc.other", "vbi.chswcd", "vbi.handlers", "vbi.event_mask", "vbi.time",
        "vbi.network", "rd.count", "rd.start", "rd.pattern", "rd.par", "rd3"]
VAR_OF = {
    ("vbi", ("cc", "channel")): "cc.channel", ("vbi", ("cc", "xds")): "cc.xds",
    ("vbi", ("cc", "sub_packet")): "cc.sub_packet", ("vbi", ("cc", "curr_sp")): "cc.sub_packet",
    ("vbi", ("cc", "itv_buf")): "cc.itv", ("vbi", ("cc", "itv_count")): "cc.itv",
    ("vbi", ("cc", "info_cycle")): "cc.info_cycle", ("vbi", ("cc", "last")): "cc.last",
    ("vbi", ("cc", "curr_chan")): "cc.curr_chan", ("vbi", ("cc", "transp_space")): "cc.transp_space",
    ("vbi", ("cc", "mutex")): None, ("vbi", ("cc",)): "cc.other",
    ("vbi", ("chswcd",)): "vbi.chswcd", ("vbi", ("handlers",)): "vbi.handlers",
    ("vbi", ("next_handler",)): "vbi.handlers", ("vbi", ("event_mask",)): "vbi.event_mask",
    ("vbi", ("time",)): "vbi.time", ("vbi", ("network",)): "vbi.network",
    ("vbi", ("chswcd_mutex",)): None, ("vbi", ("event_mutex",)): None, ("vbi", ("prog_info_mutex",)): None,
    ("vbi", ()): None,                         # every other member of vbi_decoder: decode-thread private, not tracked
    ("ehnode", ()): "vbi.handlers",            # the heap nodes of the handler list
    ("rd", ("count",)): "rd.count", ("rd", ("start",)): "rd.start", ("rd", ("pattern",)): "rd.pattern",
    ("rd", ("mutex",)): None, ("rd", ()): "rd.par",
    ("rd3", ()): "rd3",
}
# pointer-valued members: loading them yields a pointer into this object
POINTER_FIELD = {
    ("vbi", ("cc", "curr_sp")): ("vbi", ("cc", "sub_packet")),
    ("vbi", ("cc", "channel", "line")): ("vbi", ("cc", "channel")),     # cc_channel.line points into ch->pg[].text
    ("rd", ("pattern",)): ("rd3", ()),
    ("vbi", ("handlers",)): ("ehnode", ()), ("vbi", ("next_handler",)): ("ehnode", ()),
    ("ehnode", ("next",)): ("ehnode", ()),
}
BACKPTR_FIELD = {"vbi": ("vbi", ())}          # vbi_page.vbi inside the caption pages points back to the decoder
ROOT_TYPES = {"vbi_decoder": ("vbi", ()), "vbi_raw_decoder": ("rd", ()), "vbi3_raw_decoder": ("rd3", ())}
CALLOUT_FIELDS = {"handler"}
HANDLER_FNS = ["vbi_fetch_cc_page", "vbi_channel_switched"]
WRITE_FIRST_ARG = {"memcpy", "memmove", "memset", "strcpy", "strncpy", "strlcpy", "_vbi_strlcpy", "snprintf", "sprintf"}
PURE_EXTERN = {"if", "while", "for", "switch", "return", "sizeof", "__builtin_expect", "__assert_fail", "abs", "fabs", "strcmp", "strncmp", "strlen", "memcmp",
               "fprintf", "printf", "free", "vbi_unpar8", "_vbi_to_ascii", "__builtin_offsetof"}

ROLES = [  # name, multi, functions
    ("decode", False, ["vbi_decode"]),
    ("fetch", True, ["vbi_fetch_cc_page"]),
    ("chsw", True, ["vbi_channel_switched"]),
    ("rawdec", True, ["vbi_raw_decode"]),
    ("services", True, ["vbi_raw_decoder_add_services", "vbi_raw_decoder_remove_services",
                        "vbi_raw_decoder_check_services"]),
]
# functions documented (or used) as NOT concurrent with decoding; only reported, and used for the witness
EXCLUSIVE = ["vbi_raw_decoder_resize", "vbi_raw_decoder_parameters", "vbi_raw_decoder_reset"]
# API-level functions whose graphs the driver also knows (single-thread replay of the runtime traces)
EXTRA_FNS = ["vbi_decode_caption"] + EXCLUSIVE

TOK = re.compile(r"""
    (?P<ws>\s+) | (?P<str>"(?:\\.|[^"\\])*") | (?P<chr>'(?:\\.|[^'\\])*') |
    (?P<num>\.?\d(?:[eEpP][+-]|[\w.])*) | (?P<id>[A-Za-z_]\w*) |
    (?P<op>\.\.\.|<<=|>>=|->|\+\+|--|<<|>>|<=|>=|==|!=|&&|\|\||[-+*/%&|^]=|[-+*/%&|^~!<>=?:;,.(){}\[\]\#])
""", re.X)


def preprocess(fn):
    cmd = ["gcc", "-E", "-std=gnu99", "-D_GNU_SOURCE", "-DHAVE_CONFIG_H", "-D_REENTRANT", "-DZVBI_VERIF",
           "-I" + REPO, "-I" + os.path.join(REPO, "src"), os.path.join(REPO, "src", fn)]
    p = subprocess.run(cmd, stdout=subprocess.PIPE, stderr=subprocess.PIPE)
    if p.returncode != 0:
        sys.exit("gen_locks: gcc -E failed on %s: %s" % (fn, p.stderr.decode()[-800:]))
    return p.stdout.decode("utf-8", "replace")


def tokenize(text):
    """-> list of (tok, file, line) ; line markers consumed"""
    toks = []
    cur_file, cur_line = "?", 0
    for raw in text.split("\n"):
        m = re.match(r'#\s*(\d+)\s+"([^"]*)"', raw)
        if m:
            cur_line = int(m.group(1)) - 1
            cur_file = m.group(2)
            continue
        cur_line += 1
        if raw.startswith("#"):
            continue
        pos = 0
        while pos < len(raw):
            m = TOK.match(raw, pos)
            if not m:
                pos += 1
                continue
            pos = m.end()
            if m.lastgroup == "ws":
                continue
            toks.append((m.group(0), cur_file, cur_line))
    return toks


def match_close(toks, i, op, cl):
    """toks[i] == op ; -> index of matching close"""
    d = 0
    for j in range(i, len(toks)):
        t = toks[j][0]
        if t == op:
            d += 1
        elif t == cl:
            d -= 1
            if d == 0:
                return j
    raise ValueError("unbalanced %s at %s:%d" % (op, toks[i][1], toks[i][2]))


class Func:
    def __init__(self, name, file, line, ret, params, body, static):
        self.name, self.file, self.line, self.ret, self.params, self.body, self.static = name, file, line, ret, params, body, static
        self.ast = None


def split_commas(toks):
    out, cur, d = [], [], 0
    for t in toks:
        if t[0] in "([{":
            d += 1
        elif t[0] in ")]}":
            d -= 1
        if t[0] == "," and d == 0:
            out.append(cur)
            cur = []
        else:
            cur.append(t)
    if cur or out:
        out.append(cur)
    return out


def find_functions(toks, want_file):
    funcs = []
    i, n = 0, len(toks)
    stmt_start = 0
    while i < n:
        t = toks[i][0]
        if t == ";":
            stmt_start = i + 1
        elif t == "{":
            j = match_close(toks, i, "{", "}")
            if i > 0 and toks[i - 1][0] == ")":
                # find matching '(' backwards
                d, k = 0, i - 1
                while k >= 0:
                    if toks[k][0] == ")":
                        d += 1
                    elif toks[k][0] == "(":
                        d -= 1
                        if d == 0:
                            break
                    k -= 1
                name_tok = toks[k - 1]
                if re.match(r"[A-Za-z_]\w*$", name_tok[0]) and name_tok[0] not in ("if", "while", "for", "switch", "__attribute__"):
                    if os.path.basename(toks[i][1]) == want_file:
                        ret = [x[0] for x in toks[stmt_start:k - 1]]
                        params = split_commas(toks[k + 1:i - 1])
                        funcs.append(Func(name_tok[0], want_file, name_tok[2], ret, params, toks[i:j + 1], "static" in ret))
            i = j
            stmt_start = i + 1
        i += 1
    return funcs


# ---------------------------------------------------------------------------------------------
# statement parser
# ---------------------------------------------------------------------------------------------
class P:
    def __init__(self, toks):
        self.t, self.i = toks, 0

    def peek(self, k=0):
        return self.t[self.i + k][0] if self.i + k < len(self.t) else None

    def take(self):
        x = self.t[self.i]
        self.i += 1
        return x

    def expect(self, s):
        x = self.take()
        if x[0] != s:
            raise ValueError("expected %r got %r at %s:%d" % (s, x[0], x[1], x[2]))

    def paren(self):
        assert self.peek() == "("
        j = match_close(self.t, self.i, "(", ")")
        e = self.t[self.i + 1:j]
        self.i = j + 1
        return e

    def until_semicolon(self):
        d, st = 0, self.i
        while True:
            x = self.t[self.i][0]
            if x in "([{":
                d += 1
            elif x in ")]}":
                d -= 1
            elif x == ";" and d == 0:
                e = self.t[st:self.i]
                self.i += 1
                return e
            self.i += 1

    def stmt(self):
        x = self.peek()
        line = self.t[self.i][2]
        if x == "{":
            self.take()
            body = []
            while self.peek() != "}":
                body.append(self.stmt())
            self.take()
            return ("block", body)
        if x == "if":
            self.take()
            c = self.paren()
            a = self.stmt()
            b = None
            if self.peek() == "else":
                self.take()
                b = self.stmt()
            return ("if", c, a, b)
        if x == "while":
            self.take()
            c = self.paren()
            return ("while", c, self.stmt())
        if x == "do":
            self.take()
            b = self.stmt()
            self.expect("while")
            c = self.paren()
            self.expect(";")
            return ("do", b, c)
        if x == "for":
            self.take()
            inner = self.paren()
            parts, cur, d = [], [], 0
            for tk in inner:
                if tk[0] in "([{":
                    d += 1
                elif tk[0] in ")]}":
                    d -= 1
                if tk[0] == ";" and d == 0:
                    parts.append(cur)
                    cur = []
                else:
                    cur.append(tk)
            parts.append(cur)
            while len(parts) < 3:
                parts.append([])
            return ("for", parts[0], parts[1], parts[2], self.stmt())
        if x == "switch":
            self.take()
            c = self.paren()
            return ("switch", c, self.stmt())
        if x == "case":
            self.take()
            while self.peek() != ":" or False:
                if self.peek() == "?":      # not expected in case labels
                    raise ValueError("?: in case label")
                self.take()
            self.take()
            return ("case",)
        if x == "default" and self.peek(1) == ":":
            self.take()
            self.take()
            return ("case",)
        if x == "goto":
            self.take()
            l = self.take()[0]
            self.expect(";")
            return ("goto", l)
        if x == "break":
            self.take()
            self.expect(";")
            return ("break",)
        if x == "continue":
            self.take()
            self.expect(";")
            return ("continue",)
        if x == "return":
            self.take()
            return ("return", self.until_semicolon(), line)
        if x == ";":
            self.take()
            return ("expr", [], line)
        if re.match(r"[A-Za-z_]\w*$", x or "") and self.peek(1) == ":" and x not in ("default",):
            self.take()
            self.take()
            return ("label", x)
        return ("expr", self.until_semicolon(), line)


# ---------------------------------------------------------------------------------------------
# expression effects
# ---------------------------------------------------------------------------------------------
ARRAY_FIELDS = {}      # member name -> number of dimensions
TYPE_WORDS = {"const", "volatile", "struct", "union", "enum", "unsigned", "signed", "static", "register", "extern",
              "inline", "__inline", "__inline__", "__extension__", "__restrict", "restrict"}
ASSIGN_OPS = {"=", "+=", "-=", "*=", "/=", "%=", "&=", "|=", "^=", "<<=", ">>="}


def collect_array_fields(toks):
    """names of struct members declared as arrays:  name [..]([..])* followed by ; or ,  in a repo header"""
    i = 0
    n = len(toks)
    while i + 1 < n:
        if toks[i][1].endswith(".h") and REPO in os.path.abspath(toks[i][1]) and re.match(r"[A-Za-z_]\w*$", toks[i][0]) \
                and toks[i + 1][0] == "[" and i > 0 and toks[i - 1][0] not in ("->", ".", ")", "]"):
            j = i + 1
            nd = 0
            while j < n and toks[j][0] == "[":
                j = match_close(toks, j, "[", "]") + 1
                nd += 1
            if j < n and toks[j][0] in (";", ","):
                ARRAY_FIELDS[toks[i][0]] = max(nd, ARRAY_FIELDS.get(toks[i][0], 0))
        i += 1


def var_of(loc):
    root, path = loc
    for k in range(len(path), -1, -1):
        key = (root, tuple(path[:k]))
        if key in VAR_OF:
            return VAR_OF[key]
    return None


class Env:
    """pointer provenance of identifiers inside one function instance"""
    def __init__(self, fn, chain, binds):
        self.fn, self.chain, self.binds = fn, chain, dict(binds)   # ident -> loc (root, path) it points to


class Gen:
    def __init__(self):
        self.funcs = {}
        self.summary = {}
        self.fn_ids = {}
        self.sites = []          # list of chains (tuples of fn ids)
        self.site_ix = {}
        self.warnings = []
        # per C function (not inlined): what its own text does, for the GIMPLE cross-check
        # (translate/locks_gimple_xcheck.py): lock calls in source order, shared fields written,
        # callouts, direct calls into the scope files
        self.perfn = {}

    def rec(self, fn):
        return self.perfn.setdefault(fn, {"locks": [], "writes": set(), "callouts": set(), "calls": set(), "file": None})

    def fid(self, name):
        if name not in self.fn_ids:
            self.fn_ids[name] = len(self.fn_ids)
        return self.fn_ids[name]

    def site(self, chain):
        key = tuple(self.fid(f) for f in chain)
        if key not in self.site_ix:
            self.site_ix[key] = len(self.sites)
            self.sites.append(key)
        return self.site_ix[key]

    # -- pointer values ----------------------------------------------------------------------
    def eval_ptr(self, toks, env):
        """provenance of an expression used as a pointer: (root,path) or None"""
        ts = [t[0] for t in toks]
        # strip casts and parens:  ( type * ) e   /  ( e )
        while ts and ts[0] == "(":
            j = match_close([(x,) for x in ts], 0, "(", ")")
            inner = ts[1:j]
            if j == len(ts) - 1:
                ts = inner
                continue
            if inner and inner[-1] == "*" and all(re.match(r"[A-Za-z_]\w*$", x) or x == "*" for x in inner):
                ts = ts[j + 1:]
                continue
            break
        if not ts:
            return None
        amp = False
        if ts[0] == "&":
            amp = True
            ts = ts[1:]
            while ts and ts[0] == "(" and match_close([(x,) for x in ts], 0, "(", ")") == len(ts) - 1:
                ts = ts[1:-1]
        if not ts or not re.match(r"[A-Za-z_]\w*$", ts[0]):
            return None
        loc, k, _, ptrval = self.chain_loc(ts, 0, env)
        if loc is None:
            return None
        rest = ts[k:]
        if amp:
            return loc if not rest else None
        # pointer arithmetic:  loc + e   (array decay or pointer variable)
        if rest and rest[0] not in ("+", "-"):
            return None
        return self.ptr_value(loc, ts[:k], ptrval)

    def ptr_value(self, loc, chain_toks, ptrval=False):
        """value of the chain when used as a pointer (not dereferenced), else None"""
        if len(chain_toks) == 1 or ptrval:
            return loc                                   # plain pointer variable / back pointer
        root, path = loc
        if (root, tuple(path)) in POINTER_FIELD:
            return POINTER_FIELD[(root, tuple(path))]
        idx = [i for i, t in enumerate(chain_toks) if re.match(r"[A-Za-z_]\w*$", t) and i > 0 and chain_toks[i - 1] in ("->", ".")]
        if idx and path and path[-1] == chain_toks[idx[-1]] and chain_toks[idx[-1]] in ARRAY_FIELDS:
            nsub, d = 0, 0
            for t in chain_toks[idx[-1] + 1:]:
                if t == "[":
                    if d == 0:
                        nsub += 1
                    d += 1
                elif t == "]":
                    d -= 1
            if nsub < ARRAY_FIELDS[chain_toks[idx[-1]]]:
                return loc                               # array decay / row of a 2-d array
        return None

    def chain_loc(self, ts, i, env):
        """ts[i] is an identifier bound in env; follow -> . [] ; -> (loc, next index, had_deref, is_pointer_value)"""
        name = ts[i]
        if name not in env.binds:
            return None, i + 1, False, False
        root, path = env.binds[name]
        path = list(path)
        k = i + 1
        deref = False
        ptrval = False
        n = len(ts)
        while k < n:
            if ts[k] in ("->", ".") and k + 1 < n:
                f = ts[k + 1]
                # a pointer-valued member is loaded, then dereferenced
                if ts[k] == "->" and (root, tuple(path)) in POINTER_FIELD and k > i + 1:
                    root, path = POINTER_FIELD[(root, tuple(path))]
                    path = list(path)
                ptrval = False
                if f in BACKPTR_FIELD and root == "vbi" and path[:1] == ["cc"]:
                    root, path = BACKPTR_FIELD[f]
                    path = list(path)
                    ptrval = True
                    deref = True
                    k += 2
                    continue
                path.append(f)
                deref = True
                k += 2
            elif ts[k] == "[":
                j = match_close([(x,) for x in ts], k, "[", "]")
                deref = True
                k = j + 1
            else:
                break
        return (root, tuple(path)), k, deref, ptrval

    # -- effects of one expression / declaration ------------------------------------------------
    def effects(self, toks, env, line):
        """-> list of effect tuples in evaluation order (reads, calls in text order, writes)"""
        ts = [t[0] for t in toks]
        reads, calls, writes = [], [], []
        self.bind_locals(ts, toks, env)
        i, n = 0, len(ts)
        skip_until = -1
        while i < n:
            t = ts[i]
            if t == "sizeof" and i + 1 < n and ts[i + 1] == "(":
                i = match_close([(x,) for x in ts], i + 1, "(", ")") + 1
                continue
            if re.match(r"[A-Za-z_]\w*$", t) and (i == 0 or ts[i - 1] not in ("->", ".")):
                # call?
                if i + 1 < n and ts[i + 1] == "(" and t not in env.binds:
                    j = match_close([(x,) for x in ts], i + 1, "(", ")")
                    args = split_commas(toks[i + 2:j])
                    calls.append((i, ("call", t, args, line)))
                    i += 1          # arguments are scanned too (their reads count)
                    continue
                if t in env.binds:
                    loc, k, deref, ptrval = self.chain_loc(ts, i, env)
                    chain_toks = ts[i:k]
                    if not deref and i > 0 and ts[i - 1] == "*" and (i == 1 or ts[i - 2] in
                            ("(", ",", "=", ";", "{", "}", "+", "-", "?", ":", "&&", "||", "!", "return", "++", "--") or ts[i - 2] in ASSIGN_OPS):
                        v = var_of(loc)                  # unary  *p  /  *p++
                        kk = k
                        while kk < n and ts[kk] in ("++", "--"):
                            kk += 1
                        if v:
                            (writes if kk < n and ts[kk] in ASSIGN_OPS else reads).append(v)
                        i = k
                        continue
                    addr = i > 0 and ts[i - 1] == "&" and (i < 2 or ts[i - 2] in ("(", ",", "=", "return", "+", "-", "?", ":", "&&", "||", "!") or i == 1)
                    # call through a function pointer member
                    if k < n and ts[k] == "(" and deref:
                        last = [x for x in chain_toks if re.match(r"[A-Za-z_]\w*$", x)][-1]
                        j = match_close([(x,) for x in ts], k, "(", ")")
                        if last in CALLOUT_FIELDS:
                            v = var_of(loc)
                            if v:
                                reads.append(v)
                            calls.append((i, ("callout", line)))
                        else:
                            self.warnings.append("call through pointer %s in %s:%d not modelled" % ("".join(chain_toks), env.fn, line))
                        i = k
                        continue
                    if deref and not addr:
                        # intermediate pointer loads count as reads of the member they are loaded from
                        is_ptr_use = self.ptr_value(loc, chain_toks, ptrval) is not None \
                            and (loc[0], tuple(loc[1])) not in POINTER_FIELD
                        v = var_of(loc)
                        if v and not is_ptr_use:
                            nxt = ts[k] if k < n else ""
                            prv = ts[i - 1] if i > 0 else ""
                            if nxt in ASSIGN_OPS or nxt in ("++", "--") or prv in ("++", "--"):
                                writes.append(v)
                                if nxt != "=":
                                    reads.append(v)
                            else:
                                reads.append(v)
                    i += 1          # subscripts inside the chain are scanned as well
                    continue
            i += 1
        out = [("read", v) for v in dict.fromkeys(reads)]
        out += [c for _, c in calls]
        out += [("write", v) for v in dict.fromkeys(writes)]
        return out

    def bind_locals(self, ts, toks, env):
        """x = <pointer expr>  /  T *x = <pointer expr> : record provenance (flow-insensitive)"""
        d = 0
        for i, t in enumerate(ts):
            if t in "([{":
                d += 1
            elif t in ")]}":
                d -= 1
            elif t == "=" and d == 0 and i >= 1 and re.match(r"[A-Za-z_]\w*$", ts[i - 1]) and (i < 2 or ts[i - 2] not in ("->", ".")):
                # right-hand side up to the next top-level comma
                j, dd = i + 1, 0
                while j < len(ts):
                    if ts[j] in "([{":
                        dd += 1
                    elif ts[j] in ")]}":
                        dd -= 1
                    elif ts[j] == "," and dd == 0:
                        break
                    j += 1
                name = ts[i - 1]
                val = self.eval_ptr(toks[i + 1:j], env)
                if val is not None:
                    old = env.binds.get(name)
                    if old is not None and old != val:
                        # join = common prefix on the same root
                        if old[0] != val[0]:
                            self.warnings.append("pointer %s in %s bound to two objects" % (name, env.fn))
                            continue
                        cp = []
                        for a, b in zip(old[1], val[1]):
                            if a != b:
                                break
                            cp.append(a)
                        val = (old[0], tuple(cp))
                    env.binds[name] = val
                elif name in env.binds and not self.is_param_root(name, env):
                    # re-assigned from something we cannot follow (e.g. list walk): keep the binding
                    pass

    def is_param_root(self, name, env):
        return False


# ---------------------------------------------------------------------------------------------
# CFG construction
# ---------------------------------------------------------------------------------------------
class Graph:
    def __init__(self):
        self.n = 0
        self.edges = []      # (src, act, dst) act = tuple

    def node(self):
        self.n += 1
        return self.n - 1

    def edge(self, a, act, b):
        self.edges.append((a, act, b))


class Builder:
    def __init__(self, gen):
        self.g = gen
        self.graph = None

    def param_binds(self, f, arg_locs):
        binds = {}
        for idx, ptoks in enumerate(f.params):
            ts = [t[0] for t in ptoks]
            ids = [x for x in ts if re.match(r"[A-Za-z_]\w*$", x) and x not in TYPE_WORDS]
            if not ids or "*" not in ts:
                continue
            pname = ids[-1]
            if arg_locs is not None:
                if idx < len(arg_locs) and arg_locs[idx] is not None:
                    binds[pname] = arg_locs[idx]
            else:
                for ty, loc in ROOT_TYPES.items():
                    if ty in ts:
                        binds[pname] = loc
        return binds

    def build_function(self, name):
        self.graph = Graph()
        f = self.g.funcs[name]
        entry, exit_ = self.graph.node(), self.graph.node()
        self.inline(f, None, entry, exit_, (name,), [])
        return entry, exit_

    def inline(self, f, arg_locs, entry, exit_, chain, stack):
        env = Env(f.name, chain, self.param_binds(f, arg_locs))
        if f.ast is None:
            p = P(f.body)
            f.ast = p.stmt()
        # two passes over the body so that provenance of locals assigned late is known early
        self.prebind(f.ast, env)
        ctx = {"exit": exit_, "brk": None, "cont": None, "labels": {}, "cases": None, "env": env,
               "stack": stack + [(f.name, entry, exit_)]}
        end = self.stmt(f.ast, entry, ctx)
        if end is not None:
            self.graph.edge(end, ("tau",), exit_)

    def prebind(self, s, env):
        k = s[0]
        if k == "block":
            for x in s[1]:
                self.prebind(x, env)
        elif k == "if":
            self.prebind(s[2], env)
            if s[3]:
                self.prebind(s[3], env)
        elif k in ("while", "switch"):
            self.prebind(s[2], env)
        elif k == "do":
            self.prebind(s[1], env)
        elif k == "for":
            for part in (s[1], s[3]):
                self.g.bind_locals([t[0] for t in part], part, env)
            self.prebind(s[4], env)
        elif k == "expr":
            self.g.bind_locals([t[0] for t in s[1]], s[1], env)

    def emit(self, toks, cur, ctx, line):
        """effects of an expression as a chain of edges from cur; returns the end node"""
        env = ctx["env"]
        for ef in self.g.effects(toks, env, line):
            cur = self.emit_effect(ef, cur, ctx)
        return cur

    def emit_effect(self, ef, cur, ctx):
        env = ctx["env"]
        G = self.graph
        kind = ef[0]
        rec = self.g.rec(env.fn)
        if kind in ("read", "write"):
            if kind == "write":
                rec["writes"].add(ef[1])
            nxt = G.node()
            G.edge(cur, ("acc", ef[1], kind == "write", self.g.site(env.chain)), nxt)
            return nxt
        if kind == "callout":
            rec["callouts"].add(ef[1])
            nxt = G.node()
            G.edge(cur, ("callout", self.g.site(env.chain)), nxt)
            return nxt
        _, fname, args, line = ef
        if fname in ("pthread_mutex_lock", "pthread_mutex_unlock", "pthread_mutex_trylock"):
            loc = self.g.eval_ptr(args[0], env)
            m = MUTEX_LOC.get((loc[0], tuple(loc[1]))) if loc else None
            if m is None:
                sys.exit("gen_locks: cannot identify mutex in %s:%d (%s)" % (env.fn, line, " ".join(t[0] for t in args[0])))
            item = [line, fname[len("pthread_mutex_"):], m]
            if item not in rec["locks"]:
                rec["locks"].append(item)
            nxt = G.node()
            if fname.endswith("trylock"):
                G.edge(cur, ("tryOk", m), nxt)
                G.edge(cur, ("tryFail", m), nxt)
            else:
                G.edge(cur, ("lock" if fname.endswith("_lock") else "unlock", m), nxt)
            return nxt
        arg_locs = [self.g.eval_ptr(a, env) for a in args]
        if fname in self.g.funcs or fname in self.g.summary:
            rec["calls"].add(fname)
        if fname in self.g.funcs:
            f = self.g.funcs[fname]
            for (sn, sentry, sexit) in ctx["stack"]:
                if sn == fname:                      # recursion: re-enter the active instance (over-approximation)
                    nxt = G.node()
                    G.edge(cur, ("tau",), sentry)
                    G.edge(sexit, ("tau",), nxt)
                    return nxt
            e2, x2 = G.node(), G.node()
            G.edge(cur, ("tau",), e2)
            self.inline(f, arg_locs, e2, x2, env.chain + (fname,), ctx["stack"])
            return x2
        if fname in PURE_EXTERN:
            return cur
        # summarised call
        consts = self.g.summary.get(fname)
        for idx, loc in enumerate(arg_locs):
            if loc is None:
                continue
            v = var_of(loc)
            if v is None:
                continue
            if consts is not None:
                w = not (idx < len(consts) and consts[idx])
            elif fname in WRITE_FIRST_ARG:
                w = idx == 0
            else:
                w = True
            if loc[0] == "rd" and loc[1] == ():      # (vbi_sampling_par *) rd overlays start/count as well
                vs = ["rd.par", "rd.start", "rd.count"] + (["rd.pattern"] if w else [])   # typedef vbi_raw_decoder vbi_sampling_par
            else:
                vs = [v]
            for v in vs:
                if w:
                    rec["writes"].add(v)
                nxt = G.node()
                G.edge(cur, ("acc", v, w, self.g.site(env.chain + (fname,))), nxt)
                cur = nxt
        return cur

    def stmt(self, s, cur, ctx):
        """-> node after the statement, or None when control does not fall through"""
        G = self.graph
        k = s[0]
        if cur is None and k not in ("label", "case", "block", "switch", "if", "while", "for", "do"):
            return None
        if k == "block":
            for x in s[1]:
                cur = self.stmt(x, cur, ctx)
            return cur
        if k == "expr":
            return self.emit(s[1], cur, ctx, s[2])
        if k == "return":
            cur = self.emit(s[1], cur, ctx, s[2])
            G.edge(cur, ("tau",), ctx["exit"])
            return None
        if k == "if":
            if cur is None:
                a = self.stmt(s[2], None, ctx)
                b = self.stmt(s[3], None, ctx) if s[3] else None
            else:
                c = self.emit(s[1], cur, ctx, 0)
                a = self.stmt(s[2], self.fork(c), ctx)
                b = self.stmt(s[3], self.fork(c), ctx) if s[3] else self.fork(c)
            return self.join(a, b)
        if k == "while":
            head = G.node()
            if cur is not None:
                G.edge(cur, ("tau",), head)
            c = self.emit(s[1], head, ctx, 0)
            out = G.node()
            G.edge(c, ("tau",), out)
            c2 = dict(ctx, brk=out, cont=head)
            e = self.stmt(s[2], self.fork(c), c2)
            if e is not None:
                G.edge(e, ("tau",), head)
            return out
        if k == "do":
            head = G.node()
            if cur is not None:
                G.edge(cur, ("tau",), head)
            out, cnd = G.node(), G.node()
            c2 = dict(ctx, brk=out, cont=cnd)
            e = self.stmt(s[1], head, c2)
            if e is not None:
                G.edge(e, ("tau",), cnd)
            c = self.emit(s[2], cnd, ctx, 0)
            G.edge(c, ("tau",), head)
            G.edge(c, ("tau",), out)
            return out
        if k == "for":
            if cur is not None:
                cur = self.emit(s[1], cur, ctx, 0)
            head = G.node()
            if cur is not None:
                G.edge(cur, ("tau",), head)
            c = self.emit(s[2], head, ctx, 0)
            out, step = G.node(), G.node()
            if s[2]:
                G.edge(c, ("tau",), out)
            c2 = dict(ctx, brk=out, cont=step)
            e = self.stmt(s[4], self.fork(c), c2)
            if e is not None:
                G.edge(e, ("tau",), step)
            se = self.emit(s[3], step, ctx, 0)
            G.edge(se, ("tau",), head)
            return out
        if k == "switch":
            disp = G.node()
            if cur is not None:
                c = self.emit(s[1], cur, ctx, 0)
                G.edge(c, ("tau",), disp)
            out = G.node()
            c2 = dict(ctx, brk=out, cases={"disp": disp, "default": False})
            e = self.stmt(s[2], None, c2)
            if e is not None:
                G.edge(e, ("tau",), out)
            G.edge(disp, ("tau",), out)        # no case matched (kept even with a default: over-approximation)
            return out
        if k == "case":
            n = G.node()
            G.edge(ctx["cases"]["disp"], ("tau",), n)
            if cur is not None:
                G.edge(cur, ("tau",), n)       # fall through
            return n
        if k == "label":
            n = self.label(ctx, s[1])
            if cur is not None:
                G.edge(cur, ("tau",), n)
            return n
        if k == "goto":
            G.edge(cur, ("tau",), self.label(ctx, s[1]))
            return None
        if k == "break":
            G.edge(cur, ("tau",), ctx["brk"])
            return None
        if k == "continue":
            G.edge(cur, ("tau",), ctx["cont"])
            return None
        raise ValueError(k)

    def label(self, ctx, name):
        if name not in ctx["labels"]:
            ctx["labels"][name] = self.graph.node()
        return ctx["labels"][name]

    def fork(self, n):
        m = self.graph.node()
        self.graph.edge(n, ("tau",), m)
        return m

    def join(self, a, b):
        if a is None:
            return b
        if b is None:
            return a
        m = self.graph.node()
        self.graph.edge(a, ("tau",), m)
        self.graph.edge(b, ("tau",), m)
        return m


def track(h, act):
    k = act[0]
    if k in ("lock", "tryOk"):
        return None if act[1] in h else (act[1],) + h
    if k == "unlock":
        if act[1] not in h:
            return None
        l = list(h)
        l.remove(act[1])
        return tuple(l)
    return h


def propagate(n, edges, entry):
    """forward propagation of held sets; nodes not reached keep None; -> (ann, problems)"""
    out = {}
    for e in edges:
        out.setdefault(e[0], []).append(e)
    ann = [None] * n
    ann[entry] = ()
    work = [entry]
    problems = []
    while work:
        u = work.pop()
        for (_, act, v) in out.get(u, []):
            h = track(ann[u], act)
            if h is None:
                problems.append("illegal %s while holding %s" % (act, ann[u]))
                continue
            if ann[v] is None:
                ann[v] = h
                work.append(v)
            elif ann[v] != h:
                problems.append("join mismatch at node %d: %s vs %s" % (v, ann[v], h))
    return ann, problems


def simplify(n, edges, entry, exit_):
    """drop unreachable nodes, contract tau edges whose source has no other out-edge, renumber"""
    changed = True
    edges = list(dict.fromkeys(edges))
    while changed:
        changed = False
        outs, ins = {}, {}
        for e in edges:
            outs.setdefault(e[0], []).append(e)
            ins.setdefault(e[2], []).append(e)
        # reachability
        seen, work = {entry}, [entry]
        while work:
            u = work.pop()
            for e in outs.get(u, []):
                if e[2] not in seen:
                    seen.add(e[2])
                    work.append(e[2])
        ne = [e for e in edges if e[0] in seen]
        if len(ne) != len(edges):
            edges, changed = ne, True
            continue
        rep = {}
        for u, es in outs.items():
            if len(es) == 1 and es[0][1] == ("tau",) and u != entry and u != exit_ and es[0][2] != u:
                rep[u] = es[0][2]
        if rep:
            def find(x):
                seen_ = set()
                while x in rep and x not in seen_:
                    seen_.add(x)
                    x = rep[x]
                return x
            ne = []
            for (a, act, b) in edges:
                if a in rep and act == ("tau",) and find(a) != a:
                    continue
                ne.append((a, act, find(b)))
            ne = list(dict.fromkeys(ne))
            if ne != edges:
                edges, changed = ne, True
                continue
        # tau self loops
        ne = [e for e in edges if not (e[1] == ("tau",) and e[0] == e[2])]
        if len(ne) != len(edges):
            edges, changed = ne, True
            continue
        # a tau edge u->v where v has a single in-edge and u != v: merge v into u
        for v, es in ins.items():
            if len(es) == 1 and es[0][1] == ("tau",) and v not in (entry, exit_) and es[0][0] != v:
                u = es[0][0]
                ne = []
                for (a, act, b) in edges:
                    if (a, act, b) == es[0]:
                        continue
                    ne.append((u if a == v else a, act, u if b == v else b))
                edges, changed = list(dict.fromkeys(ne)), True
                break
    # consecutive duplicate accesses  u -acc-> v -same acc-> w  with v having one in/out edge
    ids = {}
    for x in [entry, exit_] + [y for e in edges for y in (e[0], e[2])]:
        if x not in ids:
            ids[x] = len(ids)
    return len(ids), [(ids[a], act, ids[b]) for (a, act, b) in edges], ids[entry], ids[exit_]


def expand_callouts(gen, b, n, edges, entry, exit_, name):
    """after every callout delivered while no handler-needed mutex is held, let the handler call the
    handler-safe API functions any number of times"""
    ann, _ = propagate(n, edges, entry)
    hl = set()
    for hf in HANDLER_FNS:
        hl |= set(gen.fn_locks.get(hf, ()))
    new_edges = []
    g = Graph()
    g.n = n
    b.graph = g
    for (u, act, v) in edges:
        if act[0] != "callout":
            new_edges.append((u, act, v))
            continue
        held = ann[u] if ann[u] is not None else ()
        re_ok = not (set(held) & hl)
        if not re_ok or name in HANDLER_FNS:
            new_edges.append((u, ("callout", act[1], re_ok and name not in HANDLER_FNS), v))
            continue
        loop = g.node()
        new_edges.append((u, ("callout", act[1], True), loop))
        new_edges.append((loop, ("tau",), v))
        chain = tuple(gen.fn_name(i) for i in gen.sites[act[1]]) + ("<handler>",)
        for hf in HANDLER_FNS:
            f = gen.funcs[hf]
            e2, x2 = g.node(), g.node()
            before = len(g.edges)
            b.inline(f, None, e2, x2, chain + (hf,), [])
            new_edges.append((loop, ("tau",), e2))
            new_edges.append((x2, ("tau",), loop))
    new_edges += g.edges
    return g.n, new_edges


def lean_act(act, gen):
    k = act[0]
    if k in ("lock", "unlock", "tryOk", "tryFail"):
        return ".%s %d" % (k, MUTEXES.index(act[1]))
    if k == "acc":
        return ".acc %d %s %d" % (VARS.index(act[1]), "true" if act[2] else "false", act[3])
    if k == "callout":
        return ".callout %d %s" % (act[1], "true" if act[2] else "false")
    return ".tau"


def input_hash():
    h = hashlib.sha256(open(os.path.abspath(__file__), "rb").read())
    sd = os.path.join(REPO, "src")
    names = sorted(f for f in os.listdir(sd) if f.endswith(".h")) + INLINE_FILES + SUMMARY_FILES
    for f in names + ["../config.h", "../site_def.h"]:
        pth = os.path.join(sd, f)
        h.update(f.encode())
        try:
            h.update(open(pth, "rb").read())
        except OSError:
            h.update(b"<missing>")
    return h.hexdigest()


def main():
    ih = input_hash()
    try:
        if os.path.exists(OUT) and json.load(open(SIDE)).get("input_sha256") == ih and ("-- input " + ih) in open(OUT).read():
            print("gen_locks: sources unchanged, table kept")
            return
    except (OSError, ValueError):
        pass
    gen = Gen()
    all_toks = {}
    for fn in INLINE_FILES + SUMMARY_FILES:
        toks = tokenize(preprocess(fn))
        all_toks[fn] = toks
        collect_array_fields(toks)
        for f in find_functions(toks, fn):
            if fn in INLINE_FILES:
                gen.funcs.setdefault(f.name, f)
            else:
                # which pointer parameters are const
                consts = []
                for ptoks in f.params:
                    ts = [t[0] for t in ptoks]
                    consts.append("const" in ts and "*" in ts)
                gen.summary[f.name] = consts
                if any(t[0].startswith("pthread_mutex") for t in f.body):
                    sys.exit("gen_locks: %s in %s uses a mutex; it must be inlined, not summarised" % (f.name, fn))
    gen.fn_name = lambda i: [k for k, v in gen.fn_ids.items() if v == i][0]
    wanted = []
    for _, _, fns in ROLES:
        wanted += fns
    wanted += [f for f in EXTRA_FNS if f not in wanted]
    missing = [f for f in wanted + HANDLER_FNS if f not in gen.funcs]
    if missing:
        sys.exit("gen_locks: functions not found in the current source: %s" % missing)
    for f in wanted:
        gen.fid(f)
    gen.fid("<handler>")
    for f in ("vbi_caption_channel_switched", "vbi_caption_desync", "vbi_chsw_reset", "vbi_send_event"):
        gen.fid(f)
    b = Builder(gen)
    # locks taken by the handler-safe functions
    gen.fn_locks = {}
    for hf in HANDLER_FNS:
        entry, exit_ = b.build_function(hf)
        gen.fn_locks[hf] = sorted({e[1][1] for e in b.graph.edges if e[1][0] in ("lock", "tryOk")})
    table = {}
    for name in wanted:
        entry, exit_ = b.build_function(name)
        n, edges = b.graph.n, b.graph.edges
        n, edges, entry, exit_ = simplify(n, edges, entry, exit_)
        n, edges = expand_callouts(gen, b, n, edges, entry, exit_, name)
        edges = [(u, act if act[0] != "callout" or len(act) == 3 else ("callout", act[1], False), v) for (u, act, v) in edges]
        n, edges, entry, exit_ = simplify(n, edges, entry, exit_)
        ann, problems = propagate(n, edges, entry)
        # node id = K * index + code(held set), so that Lean reads the annotation off the id
        helds = [()] + sorted({a for a in ann if a}, key=lambda a: (len(a), a))
        K = len(helds)
        newid = [K * i + helds.index(ann[i] or ()) for i in range(n)]
        edges = [(newid[u], act, newid[v]) for (u, act, v) in edges]
        table[name] = dict(n=n, edges=edges, entry=newid[entry], exit=newid[exit_], helds=helds, problems=problems)
    src_hash = hashlib.sha256()
    for fn in INLINE_FILES + SUMMARY_FILES:
        src_hash.update(open(os.path.join(REPO, "src", fn), "rb").read())

    L = []
    L.append("import ZvbiModel.Locks.Model")
    L.append("-- input " + ih)
    L.append("/-! GENERATED by translate/gen_locks.py from %s - do not edit." % ", ".join("src/" + f for f in INLINE_FILES))
    L.append("One control-flow graph per documented API function (callees inlined), see the script's header. -/")
    L.append("namespace Zvbi.Generated.Locks")
    L.append("open Zvbi.Locks")
    L.append("")
    L.append("def mutexNames : List String := %s" % json.dumps(MUTEXES))
    L.append("def varNames : List String := %s" % json.dumps(VARS))
    fnames = [k for k, _ in sorted(gen.fn_ids.items(), key=lambda kv: kv[1])]
    L.append("def fnNames : List String := %s" % json.dumps(fnames))
    for i, m in enumerate(MUTEXES):
        L.append("def mx_%s : Mutex := %d" % (m, i))
    for i, v in enumerate(VARS):
        L.append("def var_%s : Var := %d" % (v.replace(".", "_"), i))
    for k, i in sorted(gen.fn_ids.items(), key=lambda kv: kv[1]):
        if re.match(r"\w+$", k):
            L.append("def fn_%s : Nat := %d" % (k, i))
    L.append("def fn_handler : Nat := %d" % gen.fn_ids["<handler>"])
    L.append("/-- call chain (function ids, outermost first) of every site -/")
    L.append("def siteChain : List (List Nat) := [%s]" % ", ".join("[%s]" % ", ".join(map(str, c)) for c in gen.sites))
    for name in wanted:
        t = table[name]
        L.append("")
        if t["problems"]:
            L.append("/- translator: the held-set propagation found problems (annOK will be false):")
            for p in t["problems"][:8]:
                L.append("   " + p)
            L.append("-/")
        es = ["⟨%d, %s, %d⟩" % (u, lean_act(act, gen), v) for (u, act, v) in t["edges"]]
        CH = 120
        chunks = [es[i:i + CH] for i in range(0, len(es), CH)] or [[]]
        for ci, ch in enumerate(chunks):
            L.append("def cfg_%s_e%d : List Edge := [" % (name, ci))
            for i in range(0, len(ch), 6):
                L.append("    " + ", ".join(ch[i:i + 6]) + ("," if i + 6 < len(ch) else ""))
            L.append("  ]")
        L.append("def cfg_%s : Cfg where" % name)
        L.append("  fn := %d" % gen.fn_ids[name])
        L.append("  entry := %d" % t["entry"])
        L.append("  exit := %d" % t["exit"])
        L.append("  held := [%s]" % ", ".join("[%s]" % ", ".join(str(MUTEXES.index(m)) for m in a) for a in t["helds"]))
        L.append("  edges := %s" % " ++ ".join("cfg_%s_e%d" % (name, ci) for ci in range(len(chunks))))
    L.append("")
    L.append("def roles : List Role := [")
    rl = []
    for rn, multi, fns in ROLES:
        rl.append('  ⟨"%s", %s, [%s]⟩' % (rn, "true" if multi else "false", ", ".join("cfg_" + f for f in fns)))
    L.append(",\n".join(rl))
    L.append("]")
    L.append("def exclusiveFns : List Cfg := [%s]" % ", ".join("cfg_" + f for f in EXCLUSIVE))
    L.append("def allFns : List Cfg := [%s]" % ", ".join("cfg_" + f for f in wanted))
    L.append("/-- mutexes the handler-safe functions (%s) take -/" % ", ".join(HANDLER_FNS))
    hl = sorted({MUTEXES.index(m) for hf in HANDLER_FNS for m in gen.fn_locks[hf]})
    L.append("def handlerLocks : List Mutex := [%s]" % ", ".join(map(str, hl)))
    L.append("")
    L.append("end Zvbi.Generated.Locks")
    text = "\n".join(L) + "\n"
    os.makedirs(os.path.dirname(OUT), exist_ok=True)
    if not os.path.exists(OUT) or open(OUT).read() != text:
        open(OUT, "w").write(text)
    side = {"mutexes": MUTEXES, "vars": VARS, "fns": fnames, "sites": [list(c) for c in gen.sites],
            "roles": [[r, m, f] for r, m, f in ROLES], "source_sha256": src_hash.hexdigest(), "input_sha256": ih,
            "warnings": sorted(set(gen.warnings)),
            "per_function": {k: {"file": gen.funcs[k].file if k in gen.funcs else None, "locks": v["locks"],
                                 "writes": sorted(v["writes"]), "callouts": sorted(v["callouts"]), "calls": sorted(v["calls"])}
                             for k, v in sorted(gen.perfn.items())},
            "table": {k: {"nodes": v["n"], "edges": len(v["edges"]), "problems": v["problems"][:20],
                          "actions": sorted({("%s %s" % (e[1][0], e[1][1])) if e[1][0] != "acc" else
                                             "%s %s" % ("W" if e[1][2] else "R", e[1][1]) for e in v["edges"] if e[1][0] != "tau"})}
                      for k, v in table.items()}}
    os.makedirs(os.path.dirname(SIDE), exist_ok=True)
    stext = json.dumps(side, indent=1)
    if not os.path.exists(SIDE) or open(SIDE).read() != stext:
        open(SIDE, "w").write(stext)
    for w in sorted(set(gen.warnings))[:30]:
        print("gen_locks: warning:", w)
    for k, v in table.items():
        print("gen_locks: %-34s nodes=%4d edges=%4d %s" % (k, v["n"], len(v["edges"]), "PROBLEMS: " + "; ".join(v["problems"][:3]) if v["problems"] else ""))


if __name__ == "__main__":
    main()
