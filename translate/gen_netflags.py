#!/usr/bin/env python3
"""Translator for component `net` (C13), code-shape flags: which of the two source shapes do the three
CNI debounce blocks (src/packet.c vbi_decode_vps, parse_bsd 8/30 format 1 and 2) and their helpers in
src/vbi.c / src/vbi.h have?  -> lean/ZvbiModel/Generated/NetFlags.lean

  cniCyclePerCarrier     F11.  false: all three blocks use the one `n->cycle` of vbi_network
                         (`n->cycle = 1`, `n->cycle == 1`, `n->cycle = 2`).
                         true (fixes/C13-cni-cycle-per-carrier.diff): each block uses
                         `vbi->cni_cycle[VBI_CNI_TYPE_x]` and `vbi->cni_announced[VBI_CNI_TYPE_x]` of its own
                         carrier (`cycle = (cni != announced)`, `cycle == 1`, `cycle = 2; announced = cni`),
                         struct vbi_decoder declares both arrays, vbi_chsw_reset (identified == 0) and
                         vbi_event_enable clear them next to the memset of vbi->network.
  chswCallersIdentified  F35.  false: the three blocks call `vbi_chsw_reset (vbi, id)` (id may be 0);
                         true (fixes/C13-unknown-cni-identified.diff): `vbi_chsw_reset (vbi, TRUE)`.

Any other combination (a repair applied to one block only, arrays used but not cleared, ...) is an error:
the check reports `translator gen_netflags.py` instead of guessing.  The flags are cross-checked by the
correspondence run (a wrong flag makes model and code disagree on the corpus replays F11-*, F17-*).
Output is written only when it changed."""
import os, re, sys

REPO = os.environ.get("ZVBI_REPO", "/repo")
HERE = os.path.dirname(os.path.abspath(__file__))
OUT = os.path.join(HERE, "..", "lean", "ZvbiModel", "Generated", "NetFlags.lean")


def die(msg):
    raise SystemExit("gen_netflags: " + msg)


def rd(name):
    s = open(os.path.join(REPO, "src", name), encoding="latin-1").read()
    s = re.sub(r"/\*.*?\*/", " ", s, flags=re.S)
    s = re.sub(r"//[^\n]*", " ", s)
    # drop `#if 0 ... #endif` blocks (debug code of parse_bsd)
    out, depth0, stack = [], 0, []
    for line in s.split("\n"):
        t = line.strip()
        if re.match(r"#\s*if", t):
            stack.append(bool(re.match(r"#\s*if\s+0\b", t)))
            continue
        if re.match(r"#\s*endif", t) and stack:
            stack.pop()
            continue
        if re.match(r"#\s*else", t) and stack:
            stack[-1] = not stack[-1]
            continue
        if not any(stack):
            out.append(line)
    return "\n".join(out)


def body(src, name):
    m = re.search(r"\b%s\s*\([^;{]*\)\s*\{" % re.escape(name), src)
    if not m:
        die("function %s not found" % name)
    i = src.index("{", m.start())
    depth, j = 0, i
    while True:
        if src[j] == "{":
            depth += 1
        elif src[j] == "}":
            depth -= 1
            if depth == 0:
                return src[i:j + 1]
        j += 1


def squeeze(s):
    return re.sub(r"\s+", "", s)


def main():
    pk = rd("packet.c")
    vps = squeeze(body(pk, "vbi_decode_vps"))
    bsd = squeeze(body(pk, "parse_bsd"))
    # the two blocks of parse_bsd: format 1 up to the `else` of `if (designation <= 1)`, format 2 behind it
    k = bsd.find("n->cni_8302")
    k1 = bsd.find("n->cni_8301")
    if k1 < 0 or k < 0 or k1 > k:
        die("parse_bsd: blocks for cni_8301 / cni_8302 not found in this order")
    cut = bsd.rfind("}else{", 0, k)
    if cut < 0:
        die("parse_bsd: cannot separate the format 1 and format 2 blocks")
    blocks = {"VPS": (vps, "cni_vps"), "8301": (bsd[:cut], "cni_8301"), "8302": (bsd[cut:], "cni_8302")}

    shapes = {}
    for tag, (txt, fld) in blocks.items():
        legacy = (txt.count("n->cycle=1;") == 1 and txt.count("elseif(n->cycle==1){") == 1 and txt.count("n->cycle=2;") == 1
                  and "cni_cycle" not in txt and "cni_announced" not in txt
                  and ("n->%s=cni;n->cycle=1;" % fld) in txt)
        T = "VBI_CNI_TYPE_" + tag
        cmp_ = r"\(cni!=(?:\(unsignedint\))?vbi->cni_announced\[%s\]\)" % T
        per = (len(re.findall(r"n->%s=cni;vbi->cni_cycle\[%s\]=%s;" % (fld, T, cmp_), txt)) == 1
               and txt.count("elseif(vbi->cni_cycle[%s]==1){" % T) == 1
               and txt.count("vbi->cni_cycle[%s]=2;vbi->cni_announced[%s]=cni;" % (T, T)) == 1
               and txt.count("cni_cycle") == 3 and txt.count("cni_announced") == 2
               and "n->cycle" not in txt)
        if legacy == per:
            die("CNI debounce block %s of packet.c has neither the shared-cycle nor the per-carrier shape" % tag)
        shapes[tag] = per
        n_id = len(re.findall(r"vbi_chsw_reset\(vbi,id\);", txt))
        n_true = len(re.findall(r"vbi_chsw_reset\(vbi,TRUE\);", txt))
        if txt.count("vbi_chsw_reset(") != 1 or n_id + n_true != 1:
            die("CNI debounce block %s: expected exactly one vbi_chsw_reset (vbi, id | TRUE) call" % tag)
        shapes[tag + "/ident"] = n_true == 1
        if "if(n->nuid!=0)vbi_chsw_reset(" not in txt:
            die("CNI debounce block %s: vbi_chsw_reset is no longer guarded by `if (n->nuid != 0)`" % tag)
    per_vals = {shapes[t] for t in ("VPS", "8301", "8302")}
    if len(per_vals) != 1:
        die("the three CNI debounce blocks disagree: per-carrier cycle in %s only (half-applied repair?)"
            % ", ".join(t for t in ("VPS", "8301", "8302") if shapes[t]))
    per = per_vals.pop()
    id_vals = {shapes[t + "/ident"] for t in ("VPS", "8301", "8302")}
    if len(id_vals) != 1:
        die("the three CNI debounce blocks disagree: vbi_chsw_reset (vbi, TRUE) in %s only (half-applied repair?)"
            % ", ".join(t for t in ("VPS", "8301", "8302") if shapes[t + "/ident"]))
    ident = id_vals.pop()

    vh = squeeze(rd("vbi.h"))
    vc = rd("vbi.c")
    reset = squeeze(body(vc, "vbi_chsw_reset"))
    enable = squeeze(body(vc, "vbi_event_enable"))
    decl = (re.search(r"intcni_cycle\[VBI_CNI_TYPE_8302\+1\];", vh) is not None,
            re.search(r"intcni_announced\[VBI_CNI_TYPE_8302\+1\];", vh) is not None)
    clr_reset = "if(identified==0){memset(&vbi->network,0,sizeof(vbi->network));CLEAR(vbi->cni_cycle);CLEAR(vbi->cni_announced);" in reset
    clr_enable = "memset(&vbi->network,0,sizeof(vbi->network));CLEAR(vbi->cni_cycle);CLEAR(vbi->cni_announced);" in enable
    uses = [("vbi.h declares cni_cycle[]", decl[0]), ("vbi.h declares cni_announced[]", decl[1]),
            ("vbi_chsw_reset clears both arrays with vbi->network", clr_reset),
            ("vbi_event_enable clears both arrays with vbi->network", clr_enable)]
    if per and not all(v for _, v in uses):
        die("packet.c uses vbi->cni_cycle[] but: " + "; ".join("NOT " + n for n, v in uses if not v))
    if not per and any(v for _, v in uses) and ("cni_cycle" in vh or "cni_cycle" in squeeze(vc)):
        die("vbi.h / vbi.c mention cni_cycle[] but packet.c still uses n->cycle (half-applied repair?)")
    nostr = re.sub(r'"(?:[^"\\]|\\.)*"', '""', reset)
    if "if(identified==0){" not in nostr or nostr.count("identified") != 2:     # the test and the `if (0) fprintf` argument
        die("vbi_chsw_reset no longer uses `identified` only in `if (identified == 0)`")

    # vbi_event_enable: prog_info[] / aspect_source are reset on activation of ASPECT or PROG_INFO; only when neither
    # was enabled before?
    m = re.search(r"if\(activate&\(VBI_EVENT_ASPECT\|VBI_EVENT_PROG_INFO\)\)\{(.*?)vbi->aspect_source=0;", enable)
    if not m:
        die("vbi_event_enable: the ASPECT / PROG_INFO activation block was not found")
    inner = m.group(1)
    if "vbi_reset_prog_info(&vbi->prog_info[0]);" not in inner:
        die("vbi_event_enable: the ASPECT / PROG_INFO activation block no longer resets prog_info[0]")
    keeps = inner.startswith("if(!(vbi->event_mask&(VBI_EVENT_ASPECT|VBI_EVENT_PROG_INFO))){")
    if not keeps and "event_mask" in inner:
        die("vbi_event_enable: the ASPECT / PROG_INFO activation block tests event_mask in an unknown way")

    text = """-- generated by translate/gen_netflags.py from src/packet.c, src/vbi.c, src/vbi.h - do not edit
namespace Zvbi.Gen.Net

/-- F11: the CNI debounce of VPS, 8/30 format 1 and 8/30 format 2 keeps one repeat cycle and one announced CNI
    per carrier (`vbi->cni_cycle[]`, `vbi->cni_announced[]`) instead of sharing `n->cycle` -/
def cniCyclePerCarrier : Bool := %s
/-- F35: the three CNI paths call `vbi_chsw_reset (vbi, TRUE)` (identified by the CNI even if the table does not
    know it) instead of `vbi_chsw_reset (vbi, id)` with an id that may be 0 -/
def chswCallersIdentified : Bool := %s
/-- vbi_event_enable resets prog_info[] / aspect_source on activation of ASPECT or PROG_INFO only
    `if (!(vbi->event_mask & (VBI_EVENT_ASPECT | VBI_EVENT_PROG_INFO)))`, i.e. when neither was enabled before -/
def enableKeepsProgInfo : Bool := %s

end Zvbi.Gen.Net
""" % ("true" if per else "false", "true" if ident else "false", "true" if keeps else "false")
    old = open(OUT).read() if os.path.exists(OUT) else None
    if old != text:
        os.makedirs(os.path.dirname(OUT), exist_ok=True)
        open(OUT, "w").write(text)
        print("gen_netflags: wrote", os.path.normpath(OUT))


if __name__ == "__main__":
    main()
