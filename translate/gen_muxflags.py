#!/usr/bin/env python3
"""Translator for component `mux` (C06): shape facts of src/dvb_mux.c -> Generated/MuxFlags.lean.

The model of `generate_pes_packet` with raw lines (lean/ZvbiModel/Mux/RawModel.lean `genLoopR`, `generatePesR`)
takes one Boolean describing the source as it is *now*:

  muxKeepsLastDuSize = false   the unchanged tree: every insert_sliced_data_units / insert_raw_data_units call
                               writes through `&last_du_size` (and starts by storing 0 there), so the trailing
                               call that converts nothing forgets the size of the data unit stored last
                               (finding F29: assert in encode_stuffing when one byte is left)
  muxKeepsLastDuSize = true    fixes/C06-mux-raw-last-stuffing.diff: the calls write to `du_size`, the size is
                               kept when a unit was stored, and one byte left after a 257-byte raw unit is
                               filled by one more TS payload

  muxSegLastLine = false       the unchanged tree: every insert_sliced_data_units call starts its own `last_line` at 0, so a
                               Teletext line with the undefined line number 0 behind a raw line request gets field_parity
                               "first field" whatever was sent before (finding C06-D4)
  muxSegLastLine = true        fixes/C06-mux-undef-field-after-raw.diff: generate_pes_packet hands the line number reached
                               before the segment (`seg_last_line`) to insert_sliced_data_units (`first_last_line`);
                               vbi_dvb_multiplex_sliced passes 0 (model: `Mux.segStart`)

  muxBumpBothPaths = true      (round 6) the test `1 == p_left && last_du_size >= 257` (one more TS payload) follows BOTH size
                               branches of generate_pes_packet - fill up to min_packet_size and round up to a multiple of
                               184 - as in /repo since b15a657; also emitted for the unchanged tree, which has no such test
  muxBumpBothPaths = false     the test sits inside `if (remainder > 0) { ... }` and is not applied on the fill-up path (seeded
                               change C06-e): the driver follows that shape (`generatePesRRound`), the theorem modules stop
                               building (`Mux/PesShape.lean generatePesR_both`), and a frame ending in a 257-byte raw unit one
                               byte short of min_packet_size is emitted with that unit corrupted

Any other shape of these statements is reported as a translator failure, so that the model is read again."""
import os, re, sys

REPO = os.environ.get("ZVBI_REPO", "/repo")
HERE = os.path.dirname(os.path.abspath(__file__))
OUT = os.path.join(HERE, "..", "lean", "ZvbiModel", "Generated", "MuxFlags.lean")


def strip_comments(s):
    return re.sub(r"/\*.*?\*/", " ", s, flags=re.S)


def main():
    src = strip_comments(open(os.path.join(REPO, "src", "dvb_mux.c")).read())
    m = re.search(r"\ngenerate_pes_packet\s*\(.*?\n\}\n", src, flags=re.S)
    if not m:
        raise SystemExit("gen_muxflags: generate_pes_packet not found")
    body = re.sub(r"\s+", " ", m.group(0))
    n_direct = len(re.findall(r"insert_(?:sliced|raw)_data_units \(&p, p_end - p, &last_du_size,", body))
    n_temp = len(re.findall(r"insert_(?:sliced|raw)_data_units \(&p, p_end - p, &du_size,", body))
    n_keep = body.count("if (du_size > 0) last_du_size = du_size;")
    init = "last_line = 0; last_du_size = 0; for (;;)" in body
    # round 6: the whole size computation is matched as one string, so the position of the 257 test is part of the shape
    head = ("size = p - mx->packet - 4; if (size < mx->min_packet_size) { p_left = mx->min_packet_size - size; } else { "
            "unsigned int remainder; p_left = 0; remainder = size % 184; ")
    test = "if (unlikely (1 == p_left && last_du_size >= 257)) { p_left += 184; }"
    end = " size += p_left; encode_stuffing (p, p_left, last_du_size, fixed_length);"
    n_test = body.count("last_du_size >= 257")
    tail_orig = (head + "if (remainder > 0) p_left = 184 - remainder; }" + end) in body and n_test == 0
    tail_fixed = (head + "if (remainder > 0) p_left = 184 - remainder; } " + test + end) in body and n_test == 1
    tail_moved = (head + "if (remainder > 0) { p_left = 184 - remainder; " + test + " } }" + end) in body and n_test == 1
    bump = tail_fixed or tail_moved
    both = "true"
    if n_direct == 2 and n_temp == 0 and n_keep == 0 and not init and tail_orig:
        flag = "false"
    elif n_direct == 0 and n_temp == 2 and n_keep == 2 and init and tail_fixed:
        flag = "true"
    elif n_direct == 0 and n_temp == 2 and n_keep == 2 and init and tail_moved:
        flag = "true"; both = "false"
    else:
        raise SystemExit("gen_muxflags: the last_du_size bookkeeping of generate_pes_packet has an unknown shape "
                         "(direct=%d temp=%d keep=%d init=%s bump=%s); re-read the code and update "
                         "lean/ZvbiModel/Mux/RawModel.lean genLoopR / generatePesR" % (n_direct, n_temp, n_keep, init, bump))
    # --- round 5: where insert_sliced_data_units starts its last_line (finding C06-D4)
    mi = re.search(r"\ninsert_sliced_data_units\s*\(.*?\n\}\n", src, flags=re.S)
    if not mi:
        raise SystemExit("gen_muxflags: insert_sliced_data_units not found")
    ibody = re.sub(r"\s+", " ", mi.group(0))
    i_orig = "vbi_bool fixed_length) {" in ibody and "last_line = 0; *last_du_size = 0;" in ibody
    i_fix = ("vbi_bool fixed_length, unsigned int first_last_line) {" in ibody
             and "last_line = first_last_line; *last_du_size = 0;" in ibody)
    flat = re.sub(r"\s+", " ", src)
    n_calls = len(re.findall(r"insert_sliced_data_units \(", flat))       # definition + 2 calls
    g_orig = "s - s_begin, service_mask, fixed_length);" in body and "seg_last_line" not in body
    g_fix = ("s - s_begin, service_mask, fixed_length, seg_last_line);" in body
             and body.count("s_begin = ++s; seg_last_line = last_line;") == 2
             and "seg_last_line = 0; last_line = 0;" in body and body.count("seg_last_line") == 5)
    m_orig = "sliced, s_left, service_mask, fixed_length);" in flat
    m_fix = "sliced, s_left, service_mask, fixed_length, 0);" in flat
    if n_calls == 3 and i_orig and g_orig and m_orig and not (i_fix or g_fix or m_fix):
        seg = "false"
    elif n_calls == 3 and i_fix and g_fix and m_fix and not (i_orig or g_orig or m_orig):
        seg = "true"
    else:
        raise SystemExit("gen_muxflags: the last_line start of insert_sliced_data_units has an unknown shape "
                         "(calls=%d insert=%s/%s generate=%s/%s multiplex_sliced=%s/%s); re-read the code and update "
                         "lean/ZvbiModel/Mux/Model.lean segStart / genLoop and RawModel.lean genLoopR"
                         % (n_calls, i_orig, i_fix, g_orig, g_fix, m_orig, m_fix))
    text = ("-- generated by translate/gen_muxflags.py from src/dvb_mux.c; do not edit\n"
            "namespace Zvbi.Gen\n\n"
            "/-- `generate_pes_packet` keeps the size of the data unit stored last across calls of\n"
            "`insert_sliced_data_units` / `insert_raw_data_units` that store nothing, and fills one byte left\n"
            "after a 257-byte raw unit with one more TS payload (fix C06-mux-raw-last-stuffing present) -/\n"
            "def muxKeepsLastDuSize : Bool := %s\n\n"
            "/-- `generate_pes_packet` hands the line number reached before a segment of sliced lines to\n"
            "`insert_sliced_data_units` (fix C06-mux-undef-field-after-raw present); otherwise every call starts at 0 -/\n"
            "def muxSegLastLine : Bool := %s\n\n"
            "/-- the test `1 == p_left && last_du_size >= 257` of `generate_pes_packet` follows both size branches (fill up to\n"
            "`min_packet_size`, round up to a multiple of 184); false = it sits inside the round-up branch only -/\n"
            "def muxBumpBothPaths : Bool := %s\n\nend Zvbi.Gen\n" % (flag, seg, both))
    if not os.path.exists(OUT) or open(OUT).read() != text:
        open(OUT, "w").write(text)
    print("gen_muxflags: muxKeepsLastDuSize = %s, muxSegLastLine = %s, muxBumpBothPaths = %s" % (flag, seg, both))


if __name__ == "__main__":
    main()
