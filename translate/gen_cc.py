#!/usr/bin/env python3
"""Translator for component `cc` (C08): constants of the Closed Caption decoder -> Lean.

From the *current* source text of /repo:
  src/caption.c   ROWS, COLUMNS, row_mapping[], palette_mapping[], number of channels,
                  statement order inside vbi_caption_channel_switched() (is `ch->hidden = 0`
                  executed before or after `set_cursor()`; see finding F17)
  src/cc.h        cc_mode enumerators, channel[] extent
  src/format.h    vbi_color / vbi_opacity enumerators, extent of vbi_page.text[]
  src/lang.c      caption[96][2], caption_special[16][2] (column 0 = not upper-cased)
Written only when changed.  The harness prints the same facts from the compiled code
(`layout`, `st`) and the correspondence run compares them with the generated values.
"""
import os, re, sys
sys.path.insert(0, os.path.dirname(os.path.abspath(__file__)))
from gen_tables import strip_comments, find_array, write_if_changed, REPO, OUT


def enum_values(src, first, typedef_name):
    """enumerators of `typedef enum { ... } <typedef_name>;` -> dict name -> value"""
    m = re.search(r"typedef\s+enum\s*\{([^}]*)\}\s*" + re.escape(typedef_name) + r"\s*;", src, flags=re.S)
    if not m:
        raise SystemExit("translator: enum %s not found" % typedef_name)
    vals, cur = {}, 0
    for item in m.group(1).split(","):
        item = item.strip()
        if not item:
            continue
        if "=" in item:
            n, v = item.split("=")
            cur = int(v.strip(), 0)
            n = n.strip()
        else:
            n = item
        vals[n] = cur
        cur += 1
    if first not in vals:
        raise SystemExit("translator: %s not in enum %s" % (first, typedef_name))
    return vals


def define(src, name):
    m = re.search(r"#define\s+" + name + r"\s+(\d+)", src)
    if not m:
        raise SystemExit("translator: #define %s not found" % name)
    return int(m.group(1))


def func_body(src, name):
    m = re.search(r"\n" + re.escape(name) + r"\s*\([^)]*\)\s*\{", src)
    if not m:
        raise SystemExit("translator: function %s not found" % name)
    i = m.end() - 1
    depth, j = 0, i
    while True:
        if src[j] == "{":
            depth += 1
        elif src[j] == "}":
            depth -= 1
            if depth == 0:
                break
        j += 1
    return src[i:j + 1]


def gen():
    cap = strip_comments(open(os.path.join(REPO, "src", "caption.c"), encoding="latin-1").read())
    cch = strip_comments(open(os.path.join(REPO, "src", "cc.h"), encoding="latin-1").read())
    fmt = strip_comments(open(os.path.join(REPO, "src", "format.h"), encoding="latin-1").read())
    lang = strip_comments(open(os.path.join(REPO, "src", "lang.c"), encoding="latin-1").read())
    rows, cols = define(cap, "ROWS"), define(cap, "COLUMNS")
    m = re.search(r"vbi_char\s+text\s*\[\s*(\d+)\s*\]", fmt)
    if not m:
        raise SystemExit("translator: vbi_page.text extent not found")
    text_len = int(m.group(1))
    m = re.search(r"cc_channel\s+channel\s*\[\s*(\d+)\s*\]", cch)
    if not m:
        raise SystemExit("translator: caption.channel extent not found")
    nchan = int(m.group(1))
    colors = enum_values(fmt, "VBI_BLACK", "vbi_color")
    opac = enum_values(fmt, "VBI_TRANSPARENT_SPACE", "vbi_opacity")
    modes = enum_values(cch, "MODE_NONE", "cc_mode")
    _, _, rowmap = find_array(cap, "row_mapping")
    # palette_mapping is written with enumerators
    m = re.search(r"palette_mapping\s*\[\s*8\s*\]\s*=\s*\{([^}]*)\}", cap)
    if not m:
        raise SystemExit("translator: palette_mapping not found")
    pal = [colors[t.strip()] for t in m.group(1).split(",") if t.strip()]
    _, _, basic = find_array(lang, "caption")
    _, _, special = find_array(lang, "caption_special")
    if len(basic) != 192 or len(special) != 32 or len(rowmap) != 16 or len(pal) != 8:
        raise SystemExit("translator: unexpected table sizes %d %d %d %d" % (len(basic), len(special), len(rowmap), len(pal)))
    body = func_body(cap, "vbi_caption_channel_switched")
    ih, ic = body.find("ch->hidden = 0"), body.find("set_cursor(")
    if ih < 0 or ic < 0:
        raise SystemExit("translator: vbi_caption_channel_switched: statements not found")
    hidden_first = ih < ic
    cmd = func_body(cap, "caption_command")
    # PAC in roll-up mode: is the window start clamped at row 0?
    row1_clamped = re.search(r"if\s*\(\s*row1\s*<\s*0\s*\)\s*row1\s*=\s*0\s*;", cmd) is not None
    # roll-up command: does the erase of the displayed memory raise an event (clear())?  (finding F45a)
    m = re.search(r"int\s+roll\s*=\s*\(c2\s*&\s*7\)\s*-\s*3\s*;(.*?)return\s*;\s*\}", cmd, flags=re.S)
    if not m:
        raise SystemExit("translator: roll-up command block not found")
    ru_event = re.search(r"erase_memory\s*\([^;]*;\s*erase_memory\s*\([^;]*;\s*clear\s*\(", m.group(1)) is not None
    # CR, roll branch: is the first update() skipped in pop-on mode?  (finding F45b)
    m = re.search(r"word_break\s*\(cc,\s*ch,\s*1\)\s*;\s*(if\s*\(\s*ch->mode\s*!=\s*MODE_POP_ON\s*\)\s*)?update\s*\(ch\)\s*;\s*memmove", cmd)
    if not m:
        raise SystemExit("translator: CR roll branch not found")
    cr_guard = m.group(1) is not None
    # mid-row italics: does it also set the foreground to white?  (finding F46)
    its = re.findall(r"else\s*\{\s*ch->attr\.italic\s*=\s*TRUE\s*;\s*(ch->attr\.foreground\s*=\s*VBI_WHITE\s*;)?\s*\}", cmd)
    if len(its) != 2:
        raise SystemExit("translator: expected the italics branch of PAC and of the mid-row codes, found %d" % len(its))
    midrow_keeps = its[1] == ""

    # one current channel per field?  (`int curr_chan[2]`, repair of finding F44; a plain `int curr_chan` = shared)
    if re.search(r"int\s+curr_chan\s*\[\s*2\s*\]\s*;", cch):
        sites = (re.search(r"cc->curr_chan\s*\[\s*\(\s*new_chan\s*>>\s*1\s*\)\s*&\s*1\s*\]\s*=\s*new_chan", cap),
                 re.search(r"chan\s*=\s*\(\s*cc->curr_chan\s*\[\s*field2\s*\]\s*&\s*4\s*\)", cmd),
                 re.search(r"\(\s*cc->curr_chan\s*\[\s*field2\s*\]\s*&\s*5\s*\)\s*\+\s*field2\s*\*\s*2", cap))
        if not all(sites) or len(re.findall(r"curr_chan", cap.replace(body, ""))) != 3:
            raise SystemExit("translator: curr_chan[2] declared but not used as curr_chan[field2] / curr_chan[(new_chan >> 1) & 1]")
        per_field = True
    elif re.search(r"int\s+curr_chan\s*;", cch):
        if len(re.findall(r"cc->curr_chan\s*(&|=)", cap)) != 3 or len(re.findall(r"curr_chan", cap)) != 3:
            raise SystemExit("translator: unexpected uses of the shared curr_chan")
        per_field = False
    else:
        raise SystemExit("translator: struct caption.curr_chan not found")

    # EDM / ENM: re-addressed to the caption channel of the data channel (`ch = &cc->channel[chan & 3];`, repair of finding F73)?
    m12 = re.search(r"case\s+12\s*:(.*?)return\s*;", cmd, flags=re.S)
    m14 = re.search(r"case\s+14\s*:(.*?)return\s*;", cmd, flags=re.S)
    if not m12 or not m14 or "erase_memory" not in m12.group(1) or "erase_memory" not in m14.group(1):
        raise SystemExit("translator: EDM / ENM blocks (case 12 / case 14) not found")
    readdr = [re.match(r"\s*ch\s*=\s*&\s*cc->channel\s*\[\s*chan\s*&\s*3\s*\]\s*;", b.group(1)) is not None for b in (m12, m14)]
    if readdr[0] != readdr[1] or any((("ch =" in b.group(1)) or ("ch=" in b.group(1))) != r for b, r in zip((m12, m14), readdr)):
        raise SystemExit("translator: EDM and ENM must both start with `ch = &cc->channel[chan & 3];` or neither may assign ch")
    edm_on_caption = readdr[0]

    # channel switch: are both current-channel selectors reset (`cc->curr_chan[0] = 0; cc->curr_chan[1] = 0;`)?
    n_reset = len(re.findall(r"cc->curr_chan\s*\[\s*[01]\s*\]\s*=\s*0\s*;", body))
    if "curr_chan" in body and (n_reset != 2 or len(re.findall(r"curr_chan", body)) != 2 or not per_field):
        raise SystemExit("translator: vbi_caption_channel_switched: expected `cc->curr_chan[0] = 0; cc->curr_chan[1] = 0;` or no use of curr_chan")
    chsw_resets_curr = n_reset == 2

    def lst(v):
        return "[" + ", ".join(str(x) for x in v) + "]"
    out = ["-- GENERATED by translate/gen_cc.py from src/caption.c, cc.h, format.h, lang.c - do not edit",
           "namespace Zvbi.Gen.Cc", "",
           "/-- `#define ROWS` (caption.c) -/", "def rows : Nat := %d" % rows,
           "/-- `#define COLUMNS` (caption.c) -/", "def columns : Nat := %d" % cols,
           "/-- extent of `vbi_page.text[]` (format.h) -/", "def textLen : Nat := %d" % text_len,
           "/-- extent of `struct caption.channel[]` (cc.h) -/", "def nChannels : Nat := %d" % nchan,
           "/-- `row_mapping[]` (caption.c) -/", "def rowMapping : List Int := %s" % lst(rowmap),
           "/-- `palette_mapping[8]` (caption.c), as vbi_color values -/", "def paletteMapping : List Nat := %s" % lst(pal),
           "def colBlack : Nat := %d" % colors["VBI_BLACK"], "def colWhite : Nat := %d" % colors["VBI_WHITE"],
           "def opTransparentSpace : Nat := %d" % opac["VBI_TRANSPARENT_SPACE"],
           "def opTransparentFull : Nat := %d" % opac["VBI_TRANSPARENT_FULL"],
           "def opSemiTransparent : Nat := %d" % opac["VBI_SEMI_TRANSPARENT"],
           "def opOpaque : Nat := %d" % opac["VBI_OPAQUE"],
           "/-- cc_mode enumerators MODE_NONE, MODE_POP_ON, MODE_PAINT_ON, MODE_ROLL_UP, MODE_TEXT -/",
           "def modeValues : List Nat := %s" % lst([modes[k] for k in ("MODE_NONE", "MODE_POP_ON", "MODE_PAINT_ON", "MODE_ROLL_UP", "MODE_TEXT")]),
           "/-- `caption[96][0]` (lang.c): basic character set, codes 0x20..0x7F -/",
           "def captionBasic : List Nat := %s" % lst(basic[0::2]),
           "/-- `caption_special[16][0]` (lang.c): codes 0x1130..0x113F -/",
           "def captionSpecial : List Nat := %s" % lst(special[0::2]),
           "/-- in `vbi_caption_channel_switched()`: is `ch->hidden = 0` executed before `set_cursor()`?",
           "    (`false` on the tree where finding F17 is present) -/",
           "def chswHiddenResetFirst : Bool := %s" % ("true" if hidden_first else "false"),
           "/-- PAC in roll-up mode: `if (row1 < 0) row1 = 0;` present? -/",
           "def pacRow1Clamped : Bool := %s" % ("true" if row1_clamped else "false"),
           "/-- roll-up command: `clear()` (event) after the two `erase_memory()`?  (`false` = finding F45a) -/",
           "def ruEraseRaisesEvent : Bool := %s" % ("true" if ru_event else "false"),
           "/-- CR, roll branch: first `update(ch)` guarded by `ch->mode != MODE_POP_ON`?  (`false` = finding F45b) -/",
           "def crPopOnNoUpdate : Bool := %s" % ("true" if cr_guard else "false"),
           "/-- mid-row italics leaves `attr.foreground` alone?  (`false` = finding F46) -/",
           "def midrowItalicsKeepsColour : Bool := %s" % ("true" if midrow_keeps else "false"),
           "/-- `int curr_chan[2]`: one current channel per field, read as `curr_chan[field2]`, written as",
           "    `curr_chan[(new_chan >> 1) & 1]`?  (`false` = one `curr_chan` shared by both fields, finding F44) -/",
           "def currChanPerField : Bool := %s" % ("true" if per_field else "false"),
           "/-- EDM and ENM start with `ch = &cc->channel[chan & 3];`: inside a Text Mode transmission they act on the caption",
           "    memories (EIA-608-B 7.7 / Annex B.7)?  (`false` = they act on the text channel, finding F73) -/",
           "def edmEnmOnCaption : Bool := %s" % ("true" if edm_on_caption else "false"),
           "/-- `vbi_caption_channel_switched()` resets `curr_chan[0]` and `curr_chan[1]` to 0 (no current channel: data is discarded",
           "    until the next mode-setting code)?  (`false` = the selectors survive a channel switch, finding chsw-curr-chan) -/",
           "def chswResetsCurr : Bool := %s" % ("true" if chsw_resets_curr else "false"),
           "", "end Zvbi.Gen.Cc", ""]
    return write_if_changed(os.path.join(OUT, "CcConsts.lean"), "\n".join(out))


if __name__ == "__main__":
    print("CcConsts.lean", "changed" if gen() else "unchanged")
