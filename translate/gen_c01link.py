#!/usr/bin/env python3
"""Translator for the LINK RESOLUTION / PAGE TITLE obligations of C01 (teletext.c: vbi_resolve_link, vbi_resolve_home, ait_title,
vbi_page_title) -> lean/ZvbiModel/Generated/C01Link.lean.

Method (the one of gen_c01nav.py): each function body is reduced to a SKELETON - comments removed, white space normalised, every
integer / character / string literal and the macros ROWS / COLUMNS / EXT_COLUMNS / LAST_ROW replaced by a placeholder - plus the
ordered list of the replaced literals.  The skeleton must be the one the model (lean/ZvbiModel/Nav/Link.lean) was written against
(digest below; a statement added or dropped - e.g. a `cache_page_unref (vtp);` -, a changed operator, a reordered test is "not
recognised", exit 1); the LITERALS (buffer[43], the look-back guard `j > 2`, the `- 3` / `- 2` offsets, "(at" / "(a" with their
counts, ')', '@', 167, the row guard 1 / 23, nav_link index 5, loop bounds 8 / 46 / 11 ...) are written to Lean under names and the
theorems of Props/C01Link.lean are proved on these regenerated values.  The release points of vbi_page_title (which `continue` /
`return` is preceded by `cache_page_unref (vtp);`) are extracted from the body text as booleans.  Extents come from a C probe.
LINK_SKELETON=0 skips the digest test (mutant experiments), LINK_SHOW=1 prints digests and literal lists."""
import hashlib, os, re, subprocess, sys, tempfile

REPO = os.environ.get("ZVBI_REPO", "/repo")
HERE = os.path.dirname(os.path.abspath(__file__))
OUT = os.path.join(HERE, "..", "lean", "ZvbiModel", "Generated", "C01Link.lean")
SHOW = os.environ.get("LINK_SHOW") == "1"
NOSKEL = os.environ.get("LINK_SKELETON") == "0"


def die(msg):
    sys.exit("gen_c01link: " + msg)


def strip_comments(s):
    pat = re.compile(r'"(?:[^"\\\n]|\\.)*"|\'(?:[^\'\\\n]|\\.)\'|/\*.*?\*/|//[^\n]*', flags=re.S)
    return pat.sub(lambda m: m.group(0) if m.group(0)[0] in "\"'" else " ", s)


def function_body(src, name):
    m = re.search(r"^" + re.escape(name) + r"\s*\(", src, flags=re.M)
    if not m:
        die("definition of %s not found (not recognised)" % name)
    i = src.index("{", m.end())
    k, depth = i + 1, 1
    while k < len(src) and depth:
        depth += {"{": 1, "}": -1}.get(src[k], 0)
        k += 1
    return re.sub(r"\s+", " ", src[i + 1:k - 1]).strip()


tel = strip_comments(open(os.path.join(REPO, "src", "teletext.c"), encoding="latin-1").read())

DEF = {}
for name in ("ROWS", "COLUMNS", "EXT_COLUMNS"):
    m = re.search(r"#define\s+%s\s+(\d+)\b" % name, tel)
    if not m:
        die("#define %s not found in teletext.c (not recognised)" % name)
    DEF[name] = int(m.group(1))
if not re.search(r"#define\s+LAST_ROW\s+\(\(ROWS - 1\) \* EXT_COLUMNS\)", tel):
    die("#define LAST_ROW ((ROWS - 1) * EXT_COLUMNS) not found (not recognised)")
DEF["LAST_ROW"] = (DEF["ROWS"] - 1) * DEF["EXT_COLUMNS"]

TOK = re.compile(r'"(?:[^"\\]|\\.)*"|\'(?:[^\'\\]|\\.)\'|\b0[xX][0-9a-fA-F]+[uUlL]*\b|\b\d+[uUlL]*\b|\b(?:ROWS|COLUMNS|EXT_COLUMNS|LAST_ROW)\b')


def c_unescape(s):
    return bytes(s, "latin-1").decode("unicode_escape").encode("latin-1")


def skeleton(body):
    lits = []

    def rep(m):
        t = m.group(0)
        if t[0] == '"':
            lits.append(list(c_unescape(t[1:-1])))
            return "S"
        if t[0] == "'":
            lits.append(c_unescape(t[1:-1])[0])
            return "N"
        if t in DEF:
            lits.append(DEF[t])
            return "N"
        lits.append(int(re.sub(r"[uUlL]+$", "", t), 0))
        return "N"
    sk = TOK.sub(rep, body)
    return hashlib.sha1(sk.encode()).hexdigest()[:16], lits, sk


EXPECT = {
    # function: (skeleton digest, number of literals)
    "vbi_resolve_link": ("232dd74c7f986690", 43),
    "vbi_resolve_home": ("482cd7dd873e0678", 3),
    "ait_title": ("963b90a2d63ac582", 15),
    "vbi_page_title": ("939c0b727f36d503", 7),
}
L, BODY = {}, {}
for fn, (dig, n) in EXPECT.items():
    BODY[fn] = function_body(tel, fn)
    d, lits, sk = skeleton(BODY[fn])
    if SHOW:
        print(fn, d, len(lits))
        print("   ", [(i, x if not isinstance(x, list) else bytes(x)) for i, x in enumerate(lits)])
    elif d != dig and not NOSKEL:
        die("%s: not recognised (the statement skeleton of the function is not the one the model follows: %s, expected %s)" % (fn, d, dig))
    if len(lits) != n:
        die("%s: not recognised (%d literals, expected %d)" % (fn, len(lits), n))
    L[fn] = lits
if SHOW:
    sys.exit(0)

rl, rh, at, pt = L["vbi_resolve_link"], L["vbi_resolve_home"], L["ait_title"], L["vbi_page_title"]
for i in (23, 28):
    if not isinstance(rl[i], list):
        die("vbi_resolve_link: not recognised (literal %d is not a string)" % i)
for i, x in enumerate(rl):
    if i not in (23, 28) and isinstance(x, list):
        die("vbi_resolve_link: not recognised (literal %d is a string)" % i)
# the model has ONE offset for the store `buffer[j + 1] = ...` and the three tests `buffer[j + 1] == ...` of the same byte,
# and for the `j + 1` of both look-back pointers
if not (rl[13] == rl[18] == rl[31] == rl[33] == rl[21] == rl[26]):
    die("vbi_resolve_link: not recognised (the offsets of the store buffer[j + N] and of the tests of that byte differ: %r)" %
        [rl[13], rl[18], rl[31], rl[33], rl[21], rl[26]])
# the model compares `lit.take n`: a count behind the string's end would also compare the NUL, which the model does not follow
if rl[24] > len(rl[23]) or rl[29] > len(rl[28]) or 0 in rl[23] or 0 in rl[28]:
    die("vbi_resolve_link: not recognised (strncasecmp count larger than its string, or a NUL inside: %r %d, %r %d)" %
        (bytes(rl[23]), rl[24], bytes(rl[28]), rl[29]))
if rh[1] != rh[2]:
    die("vbi_resolve_home: not recognised (pgno and subno are read from different nav_link[] elements: %d, %d)" % (rh[1], rh[2]))
if not (at[6] == at[7] == at[8] == at[9] == 0):
    die("ait_title: not recognised (second loop bound / font[] index not 0: %r)" % at[6:10])

# release points of vbi_page_title
b = BODY["vbi_page_title"]
m = re.search(r"vtp = _vbi_cache_get_page \(.*?\); if \(!vtp\) \{(.*?)continue; \} else if \(vtp->function != PAGE_FUNCTION_AIT\) \{(.*?)continue; \}"
              r" for \(ait = vtp->data\.ait\.title, j = \w+; j < \w+; ait\+\+, j\+\+\) \{ if \(ait->link\.pgno == pgno\) \{(.*?)return TRUE; \} \}(.*?)\} \}", b)
if not m:
    die("vbi_page_title: not recognised (get_page / continue / return structure)")
UNREF = "cache_page_unref (vtp);"
rel = [m.group(k).count(UNREF) for k in (1, 2, 3, 4)]
if b.count(UNREF) != sum(rel) or b.count("_vbi_cache_get_page") != 1:
    die("vbi_page_title: not recognised (a cache_page_unref / _vbi_cache_get_page outside the four known places)")
if "ait_title(vbi, vtp, ait, buf); " + UNREF not in m.group(3) and rel[2]:
    die("vbi_page_title: not recognised (the page is released before ait_title reads it)")

# ---------------------------------------------------------------- C probe
PROBE = r"""
#include <stdio.h>
#include <stddef.h>
#include "src/vt.h"
#include "src/cache-priv.h"
#define N(a) ((int)(sizeof(a)/sizeof((a)[0])))
int main(void){
  vbi_page pg; cache_page cp; cache_network cn; vbi_link ld;
  printf("textLen %d\n", N(pg.text));
  printf("navLinkLen %d\n", N(pg.nav_link));
  printf("navIndexLen %d\n", N(pg.nav_index));
  printf("bttLinkLen %d\n", N(cn.btt_link));
  printf("aitTitleLen %d\n", N(cp.data.ait.title));
  printf("aitTextLen %d\n", N(cp.data.ait.title[0].text));
  printf("urlLen %d\n", N(ld.url));
  printf("overTop %d\n", VBI_OVER_TOP);
  printf("overBottom %d\n", VBI_OVER_BOTTOM);
  return 0;
}
"""
with tempfile.TemporaryDirectory() as td:
    src = os.path.join(td, "probe.c")
    open(src, "w").write(PROBE)
    exe = os.path.join(td, "probe")
    p = subprocess.run(["gcc", "-w", "-D_GNU_SOURCE", "-DHAVE_CONFIG_H", "-I" + REPO, "-I" + os.path.join(REPO, "src"), src, "-o", exe],
                       stdout=subprocess.PIPE, stderr=subprocess.PIPE)
    if p.returncode != 0:
        die("probe does not compile:\n" + p.stderr.decode()[-2000:])
    out = subprocess.run([exe], stdout=subprocess.PIPE).stdout.decode()
P = {}
for line in out.strip().split("\n"):
    k, v = line.split()
    P[k] = int(v)

o = []
w = o.append


def lst(xs):
    return "[" + ", ".join(str(x) for x in xs) + "]"


def bl(x):
    return "true" if x else "false"


w("-- GENERATED by translate/gen_c01link.py from src/teletext.c and a C probe - do not edit")
w("namespace Zvbi.Gen.C01Link")
w("")
w("/-! ## macros and extents (C probe) -/")
w("def rows : Nat := %d" % DEF["ROWS"])
w("def columns : Nat := %d" % DEF["COLUMNS"])
w("def extColumns : Nat := %d" % DEF["EXT_COLUMNS"])
for k in ("textLen", "navLinkLen", "navIndexLen", "bttLinkLen", "aitTitleLen", "aitTextLen", "urlLen", "overTop", "overBottom"):
    w("def %s : Nat := %d" % (k, P[k]))
w("")
w("/-! ## vbi_resolve_link() -/")
w("def rlBufferLen : Nat := %d       -- `unsigned char buffer[43];`" % rl[0])
w("def rlAssertLo : Int := %d        -- `assert(column >= 0 && column < EXT_COLUMNS)`" % rl[1])
w("def rlAssertHi : Int := %d" % rl[2])
w("def rlStride : Int := %d          -- `&pg->text[row * EXT_COLUMNS]`" % rl[3])
w("def rlNavRow : Int := %d          -- `row == (ROWS - 1)`" % (rl[4] - rl[5]))
w("def rlRowLo : Int := %d           -- `row < 1`" % rl[6])
w("def rlRowHi : Int := %d           -- `row > 23`" % rl[7])
w("def rlColHi : Int := %d           -- `column >= COLUMNS`" % rl[8])
w("def rlPgnoLo : Int := %d          -- `pg->pgno < 0x100`" % rl[9])
w("def rlInit : Int := %d            -- `i = j = b = 0`" % rl[10])
w("def rlCols : Nat := %d            -- `i < COLUMNS`" % rl[11])
w("def rlRestart : Int := %d         -- `j = b = -1`" % -rl[12])
w("def rlStoreOff : Int := %d        -- `buffer[j + 1]` (the store, the three tests of the stored byte, both look-back pointers)" % rl[13])
w("def rlCharLo : Nat := %d" % rl[14])
w("def rlCharHi : Nat := %d" % rl[15])
w("def rlPad : Nat := %d" % rl[16])
w("def rlBGuard : Int := %d          -- `if (b <= 0)`" % rl[17])
w("def rlParen : Nat := %d           -- `')'`" % rl[19])
w("def rlLookGuard : Int := %d       -- `j > 2`" % rl[20])
w("def rlAtSub : Int := %d           -- `buffer + j + 1 - 3`" % rl[22])
w("def rlAtLit : List Nat := %s      -- \"(at\"" % lst(rl[23]))
w("def rlAtCnt : Nat := %d" % rl[24])
w("def rlAtB : Int := %d             -- `b = j - 3`" % rl[25])
w("def rlASub : Int := %d            -- `buffer + j + 1 - 2`" % rl[27])
w("def rlALit : List Nat := %s       -- \"(a\"" % lst(rl[28]))
w("def rlACnt : Nat := %d" % rl[29])
w("def rlAB : Int := %d              -- `b = j - 2`" % rl[30])
w("def rlAtChars : List Nat := %s    -- `'@'`, 167" % lst([rl[32], rl[34]]))
w("def rlIdx0 : Int := %d            -- `buffer[0] = ' '`" % rl[35])
w("def rlBlank0 : Nat := %d" % rl[36])
w("def rlEnd1 : Int := %d            -- `buffer[j + 1] = ' '`" % rl[37])
w("def rlBlank1 : Nat := %d" % rl[38])
w("def rlEnd2 : Int := %d            -- `buffer[j + 2] = 0`" % rl[39])
w("def rlNul : Nat := %d" % rl[40])
w("def rlKwCol : Int := %d           -- `keyword(ld, buffer, 1, ...)`" % rl[41])
w("def rlKwOff : Int := %d           -- `keyword(ld, buffer, b + 1, ...)`" % rl[42])
w("")
w("/-! ## vbi_resolve_home() -/")
w("def rhPgnoLo : Int := %d" % rh[0])
w("def rhIdx : Nat := %d             -- `pg->nav_link[5]`" % rh[1])
w("")
w("/-! ## ait_title() -/")
w("def atFonts : Nat := %d           -- `struct vbi_font_descr *font[2];`" % at[0])
w("def atMagazine : Nat := %d" % at[1])
w("def atStart : Int := %d           -- `for (i = 11; i >= 0; i--)`" % at[2])
w("def atStop : Int := %d" % at[3])
w("def atBlank : Nat := %d           -- `ait->text[i] > 0x20`" % at[4])
w("def atNulOff : Int := %d          -- `buf[i + 1] = 0`" % at[5])
w("def atCharLo : Nat := %d          -- `(ait->text[i] < 0x20) ? 0x20 : ait->text[i]`" % at[10])
w("def atCharPad : Nat := %d" % at[11])
w("def atOutLo : Nat := %d" % at[12])
w("def atOutHi : Nat := %d" % at[13])
w("def atOutPad : Nat := %d" % at[14])
w("")
w("/-! ## vbi_page_title() -/")
w("def ptFirst : Nat := %d" % pt[0])
w("def ptBttLoop : Nat := %d         -- `for (i = 0; i < 8; i++)`" % pt[1])
w("def ptSubnoMask : Nat := %d" % pt[2])
w("def ptTitleFirst : Nat := %d" % pt[5])
w("def ptTitles : Nat := %d          -- `j < 46`" % pt[6])
w("/-- number of `cache_page_unref (vtp);` in front of: the `continue` of `!vtp`, the `continue` of the wrong page function,")
w("    `return TRUE`, the end of the block (title not found in this page) -/")
w("def ptUnrefNotCached : Nat := %d" % rel[0])
w("def ptUnrefWrongFunction : Nat := %d" % rel[1])
w("def ptUnrefFound : Nat := %d" % rel[2])
w("def ptUnrefNotFound : Nat := %d" % rel[3])
w("/-- documented size of the caller's buffer (\"at least 41 characters including the terminating zero\") -/")
m = re.search(r"@param buf Place to store the title, Latin-1 format, at least\s*\*?\s*(\d+) characters including the terminating zero",
              open(os.path.join(REPO, "src", "teletext.c"), encoding="latin-1").read())
if not m:
    die("vbi_page_title: documented buffer size not recognised")
w("def ptBufDoc : Nat := %d" % int(m.group(1)))
w("")
w("end Zvbi.Gen.C01Link")
text = "\n".join(o) + "\n"
if not os.path.exists(OUT) or open(OUT).read() != text:
    open(OUT, "w").write(text)
