#!/usr/bin/env python3
"""Translator for component pdc (C14): facts of src/pdc.c / config.h the Lean model depends on.

  * `month_days[12]`                      -> `Zvbi.Pdc.monthDays`
  * HAVE_TIMEGM defined in config.h?      -> `cfg.haveTimegm` (which `_vbi_timegm` is compiled)
  * the three lower-bound guards of the offset arithmetic (candidate F9): written against the
    epoch (`start < -seconds_east`, `start < seconds_east`, `t < 4 * 60 * 60`) or against TIME_MIN
    -> `cfg.epochIn`, `cfg.epochOut`, `cfg.epochWin`

  * errno: the values of VBI_ERR_NO_TIME / VBI_ERR_INVALID_PIL (enum in pdc.c), EOVERFLOW / ENOMEM of this
    platform, VBI_VERSION_MINOR (src/version.h; must be 2: the 0.2 API resets errno in the public
    functions, the errno model of Pdc/Errno.lean is written for that shape), and the sequence of
    `errno = ...` statements of valid_pil_lto_to_time, localtime_tz, change_tz, restore_tz and
    pty_utc_validity_window, which must be the sequence the model was written against
    -> `Generated.errNoTime`, `errInvalidPil`, `eOverflow`, `eNoMem`, `versionMinor`

Any other shape of those statements makes the translator fail (the check then reports the property
as no longer shown).  Output is written only when it changed.
"""
import errno as _errno, os, re, sys

REPO = os.environ.get("ZVBI_REPO", "/repo")
HERE = os.path.dirname(os.path.abspath(__file__))
OUT = os.path.join(HERE, "..", "lean", "ZvbiModel", "Generated", "PdcCfg.lean")

def strip_comments(s):
    s = re.sub(r"/\*.*?\*/", " ", s, flags=re.S)
    return re.sub(r"//[^\n]*", " ", s)

def body_of(src, fname):
    m = re.search(r"\n" + re.escape(fname) + r"\s*\([^)]*\)\s*\{", src)
    if not m:
        raise SystemExit("gen_pdc: function %s not found" % fname)
    i = m.end() - 1
    depth, j = 0, i
    while True:
        if src[j] == "{": depth += 1
        elif src[j] == "}":
            depth -= 1
            if depth == 0: break
        j += 1
    return re.sub(r"\s+", " ", src[i:j + 1])

def guard(body, var, epoch_pat, min_pat, what):
    e = re.search(r"if \(unlikely \(" + epoch_pat + r"\)\)", body)
    m = re.search(r"if \(unlikely \(" + min_pat + r"\)\)", body)
    if bool(e) == bool(m):
        raise SystemExit("gen_pdc: cannot classify guard %s" % what)
    return bool(e)

def main():
    src = strip_comments(open(os.path.join(REPO, "src", "pdc.c")).read())
    m = re.search(r"month_days\s*\[\s*12\s*\]\s*=\s*\{([^}]*)\}", src)
    if not m:
        raise SystemExit("gen_pdc: month_days not found")
    md = [int(x, 0) for x in re.split(r"[,\s]+", m.group(1).strip()) if x]
    if len(md) != 12:
        raise SystemExit("gen_pdc: month_days has %d entries" % len(md))
    cfgh = strip_comments(open(os.path.join(REPO, "config.h")).read())
    have_timegm = bool(re.search(r"^\s*#\s*define\s+HAVE_TIMEGM\b", cfgh, flags=re.M))
    b = body_of(src, "valid_pil_lto_to_time")
    ein = guard(b, "start", r"start < -seconds_east", r"start < TIME_MIN - seconds_east", "in (pdc.c valid_pil_lto_to_time, seconds_east < 0)")
    eout = guard(b, "start", r"start < seconds_east", r"start < TIME_MIN \+ seconds_east", "out (pdc.c valid_pil_lto_to_time, seconds_east > 0)")
    b2 = body_of(src, "valid_pil_lto_validity_window")
    ewin = guard(b2, "t", r"t < 4 \* 60 \* 60", r"t < TIME_MIN \+ 4 \* 60 \* 60", "win (pdc.c valid_pil_lto_validity_window)")
    # the upper guards must be the ones the model has
    for pat, where in ((r"start > TIME_MAX - seconds_east", b), (r"start > TIME_MAX \+ seconds_east", b),
                       (r"t > TIME_MAX - 28 \* 60 \* 60", b2)):
        if not re.search(r"if \(unlikely \(" + pat + r"\)\)", where):
            raise SystemExit("gen_pdc: upper guard '%s' not found" % pat)
    # ---- errno ----
    m = re.search(r"VBI_ERR_NO_TIME\s*=\s*(0x[0-9A-Fa-f]+|\d+)\s*,\s*VBI_ERR_INVALID_PIL\s*,", src)
    if not m:
        raise SystemExit("gen_pdc: enum VBI_ERR_NO_TIME = <n>, VBI_ERR_INVALID_PIL not found")
    no_time = int(m.group(1), 0)
    ver = strip_comments(open(os.path.join(REPO, "src", "version.h")).read())
    m = re.search(r"#\s*define\s+VBI_VERSION_MINOR\s+(\d+)", ver)
    if not m or int(m.group(1)) != 2:
        raise SystemExit("gen_pdc: VBI_VERSION_MINOR is not 2 - the errno model (Pdc/Errno.lean) follows the 0.2 API shape")
    expect = {
        "valid_pil_lto_to_time": ["0", "VBI_ERR_NO_TIME", "EOVERFLOW", "EOVERFLOW", "EOVERFLOW", "VBI_ERR_INVALID_PIL", "EOVERFLOW", "EOVERFLOW"],
        "localtime_tz": ["0", "VBI_ERR_NO_TIME", "saved_errno", "saved_errno"],
        "change_tz": ["ENOMEM", "saved_errno"],
        "restore_tz": ["saved_errno"],
        "pty_utc_validity_window": ["0", "EOVERFLOW"],
        "valid_pil_lto_validity_window": ["EOVERFLOW", "EOVERFLOW"],
    }
    for fn, want in expect.items():
        got = re.findall(r"\berrno = ([^;]+);", body_of(src, fn))
        if got != want:
            raise SystemExit("gen_pdc: errno assignments of %s are %s, the model follows %s" % (fn, got, want))
    for fn, pat in (("valid_pil_lto_to_time", r"if \(0 == errno\) errno = VBI_ERR_NO_TIME;"),
                    ("localtime_tz", r"if \(0 == saved_errno\) errno = VBI_ERR_NO_TIME; else errno = saved_errno;"),
                    ("valid_pil_lto_validity_window", r"if \(VBI_ERR_INVALID_PIL == errno\)")):
        if not re.search(pat, body_of(src, fn)):
            raise SystemExit("gen_pdc: %s: statement '%s' not found" % (fn, pat))
    t = lambda x: "true" if x else "false"
    text = """-- generated by translate/gen_pdc.py from src/pdc.c and config.h - do not edit
namespace Zvbi.Pdc

/-- build configuration and guard shapes of src/pdc.c -/
structure Cfg where
  /-- HAVE_TIMEGM: `_vbi_timegm` calls libc's timegm (else: TZ=UTC, mktime, restore) -/
  haveTimegm : Bool
  /-- `start < -seconds_east` (true) or `start < TIME_MIN - seconds_east` (false) -/
  epochIn : Bool
  /-- `start < seconds_east` (true) or `start < TIME_MIN + seconds_east` (false) -/
  epochOut : Bool
  /-- `t < 4 * 60 * 60` (true) or `t < TIME_MIN + 4 * 60 * 60` (false) -/
  epochWin : Bool
deriving DecidableEq, Repr

namespace Generated
/-- `month_days[12]` of src/pdc.c -/
def monthDays : List Nat := %s
def cfg : Cfg := { haveTimegm := %s, epochIn := %s, epochOut := %s, epochWin := %s }
/-- VBI_ERR_NO_TIME, VBI_ERR_INVALID_PIL (enum in src/pdc.c), EOVERFLOW, ENOMEM (this platform), VBI_VERSION_MINOR -/
def errNoTime : Int := %d
def errInvalidPil : Int := %d
def eOverflow : Int := %d
def eNoMem : Int := %d
def versionMinor : Nat := 2
end Generated
end Zvbi.Pdc
""" % ("[" + ", ".join(str(x) for x in md) + "]", t(have_timegm), t(ein), t(eout), t(ewin),
       no_time, no_time + 1, _errno.EOVERFLOW, _errno.ENOMEM)
    if not os.path.exists(OUT) or open(OUT).read() != text:
        open(OUT, "w").write(text)
        print("gen_pdc: wrote", OUT)

if __name__ == "__main__":
    main()
