#!/usr/bin/env python3
"""Translator for component `ev` (C11): event mask bits of src/event.h and the event
sets that gate Teletext acquisition in src/packet.c -> lean/ZvbiModel/Generated/EvConsts.lean.

Also extracts, textually, which bit set every `if (activate & ...)` of vbi_event_enable()
tests (src/vbi.c) so that the model's `enableFlags` is tied to the current source: the
sets are emitted as constants and used by the model; a change in /repo changes the
generated file and the theorems are re-checked against it.
Written only when the content changed.
"""
import os, re, sys

REPO = os.environ.get("ZVBI_REPO", "/repo")
HERE = os.path.dirname(os.path.abspath(__file__))
OUT = os.path.join(HERE, "..", "lean", "ZvbiModel", "Generated", "EvConsts.lean")


def strip_comments(s):
    s = re.sub(r"/\*.*?\*/", " ", s, flags=re.S)
    return re.sub(r"//[^\n]*", " ", s)


def main():
    ev = strip_comments(open(os.path.join(REPO, "src", "event.h")).read())
    consts = {}
    for m in re.finditer(r"#\s*define\s+(_?VBI_EVENT_\w+)\s+(0x[0-9a-fA-F]+|\d+)\s*$", ev, flags=re.M):
        consts[m.group(1)] = int(m.group(2), 0)
    need = ["VBI_EVENT_CLOSE", "VBI_EVENT_TTX_PAGE", "VBI_EVENT_CAPTION", "VBI_EVENT_NETWORK",
            "VBI_EVENT_TRIGGER", "VBI_EVENT_ASPECT", "VBI_EVENT_PROG_INFO", "VBI_EVENT_NETWORK_ID",
            "VBI_EVENT_LOCAL_TIME", "VBI_EVENT_PROG_ID"]
    for n in need:
        if n not in consts:
            raise SystemExit("gen_ev: %s not found in src/event.h" % n)

    def ev_expr(e):
        """value of an or-expression of VBI_EVENT_ names"""
        v = 0
        for t in re.split(r"[|\s()]+", e):
            if not t:
                continue
            if t not in consts:
                raise SystemExit("gen_ev: cannot evaluate %r" % e)
            v |= consts[t]
        return v

    pk = strip_comments(open(os.path.join(REPO, "src", "packet.c")).read())
    sets = {}
    for name in ("TTX_EVENTS", "BSDATA_EVENTS"):
        m = re.search(r"#\s*define\s+" + name + r"\s+(\([^\n]*\))", pk)
        if not m:
            raise SystemExit("gen_ev: %s not found in src/packet.c" % name)
        sets[name] = ev_expr(m.group(1))
    # the gate of vbi_decode_teletext must still be `packet < 30 && !(vbi->event_mask & TTX_EVENTS)`
    gate = re.search(r"if\s*\(\s*packet\s*<\s*(\d+)\s*&&\s*!\s*\(\s*vbi->event_mask\s*&\s*TTX_EVENTS\s*\)\s*\)\s*return\s+TRUE",
                     pk)
    if not gate:
        raise SystemExit("gen_ev: acquisition gate of vbi_decode_teletext not found in src/packet.c")
    gate_packet = int(gate.group(1))

    vc = strip_comments(open(os.path.join(REPO, "src", "vbi.c")).read())
    m = re.search(r"vbi_event_enable\s*\(vbi_decoder \*vbi, int mask\)\s*\{(.*?)\n\}", vc, flags=re.S)
    if not m:
        raise SystemExit("gen_ev: vbi_event_enable not found in src/vbi.c")
    body = m.group(1)
    if not re.search(r"activate\s*=\s*mask\s*&\s*~\s*vbi->event_mask\s*;", body):
        raise SystemExit("gen_ev: `activate = mask & ~vbi->event_mask` not found")
    if not re.search(r"vbi->event_mask\s*=\s*mask\s*;\s*$", body.strip()):
        raise SystemExit("gen_ev: vbi_event_enable no longer ends with `vbi->event_mask = mask`")
    acts = re.findall(r"if\s*\(\s*activate\s*&\s*(\(?[A-Z_|\s]+\)?)\s*\)\s*\{?\s*(.*?)[;{]", body, flags=re.S)
    table = []
    for cond, what in acts:
        table.append((ev_expr(cond), re.sub(r"\s+", " ", what.strip())))
    expect = ["vbi_teletext_channel_switched", "vbi_caption_channel_switched", "memset(&vbi->network",
              "vbi_trigger_flush", "if (!(vbi->event_mask & (VBI_EVENT_ASPECT | VBI_EVENT_PROG_INFO)))",
              "CLEAR (vbi->vps_pid)"]
    if len(table) != len(expect):
        raise SystemExit("gen_ev: vbi_event_enable has %d activation branches, model knows %d" % (len(table), len(expect)))
    for (v, what), e in zip(table, expect):
        if not what.replace(" ", "").startswith(e.replace(" ", "")):
            raise SystemExit("gen_ev: activation branch %r does not start with %r" % (what, e))
    # lock discipline of the allocation-failure path of _add / _register: does `return FALSE`
    # happen with the mutex released (when this call took it)?
    fails = re.findall(r"if\s*\(\s*!\s*\(\s*eh\s*=[^;]*?calloc\s*\([^;]*?\)\s*\)\s*\)\s*(\{.*?return\s+FALSE\s*;\s*\}|return\s+FALSE\s*;)",
                       vc, flags=re.S)
    if len(fails) != 2:
        raise SystemExit("gen_ev: expected the calloc failure path in _add and _register, found %d" % len(fails))
    unl = [bool(re.search(r"if\s*\(\s*!\s*was_locked\s*\)\s*pthread_mutex_unlock\s*\(\s*&vbi->event_mutex\s*\)\s*;", f)) for f in fails]
    if unl[0] != unl[1]:
        raise SystemExit("gen_ev: _add and _register differ in unlocking on calloc failure; the model knows one flag")
    oom_unlocks = unl[0]
    # src/event.c (second handler list): does _vbi_event_handler_list_add clear the `remove`
    # mark when it finds the handler again with a non-zero mask?
    ec = strip_comments(open(os.path.join(REPO, "src", "event.c")).read())
    m2 = re.search(r"^_vbi_event_handler_list_add\s*\(.*?\n\{(.*?)\n\}", ec, flags=re.S | re.M)
    if not m2:
        raise SystemExit("gen_ev: _vbi_event_handler_list_add not found in src/event.c")
    fb = re.search(r"\}\s*else\s*\{(\s*found\s*=\s*eh\s*;.*?)\}", m2.group(1), flags=re.S)
    if not fb:
        raise SystemExit("gen_ev: found-branch of _vbi_event_handler_list_add not recognised")
    readd_revives = bool(re.search(r"eh->remove\s*=\s*(FALSE|0)\s*;", fb.group(1)))
    if not re.search(r"&&\s*!\s*eh->remove", ec):
        # the delivery loop must skip records marked for removal; the model has no other variant
        raise SystemExit("gen_ev: __vbi_event_handler_list_send no longer tests `!eh->remove`")
    names = ["actTtx", "actCaption", "actNetwork", "actTrigger", "actProgInfo", "actProgId"]
    inner = re.search(r"if\s*\(\s*!\s*\(\s*vbi->event_mask\s*&\s*(\([A-Z_|\s]+\))\s*\)\s*\)", body)
    prog_guard = ev_expr(inner.group(1))

    out = ["-- GENERATED by translate/gen_ev.py from src/event.h, src/packet.c, src/vbi.c - do not edit",
           "namespace Zvbi.Gen.Ev", ""]
    for n in sorted(consts, key=lambda k: (consts[k], k)):
        out.append("def %s : Nat := 0x%x" % (n.lstrip("_") if n.startswith("_") else n, consts[n]))
    out.append("")
    out.append("/-- packet.c: `#define TTX_EVENTS ...` (gate of Teletext page acquisition) -/")
    out.append("def TTX_EVENTS : Nat := 0x%x" % sets["TTX_EVENTS"])
    out.append("def BSDATA_EVENTS : Nat := 0x%x" % sets["BSDATA_EVENTS"])
    out.append("/-- vbi_decode_teletext ignores packets below this number unless TTX_EVENTS are requested -/")
    out.append("def ttxGatePacket : Nat := %d" % gate_packet)
    out.append("")
    out.append("/-! bit sets tested by the `if (activate & ...)` branches of vbi_event_enable, in source order -/")
    for n, (v, what) in zip(names, table):
        out.append("/-- `%s` -/" % what.replace("-/", "- /")[:70])
        out.append("def %s : Nat := 0x%x" % (n, v))
    out.append("/-- inner guard of the prog_info branch: `!(vbi->event_mask & ...)` -/")
    out.append("def progInfoGuard : Nat := 0x%x" % prog_guard)
    out.append("")
    out.append("/-- vbi_event_handler_add/_register: is event_mutex released (if this call locked it) before")
    out.append("`return FALSE` when calloc fails?  (extracted from the text of both functions) -/")
    out.append("def oomUnlocks : Bool := %s" % ("true" if oom_unlocks else "false"))
    out.append("")
    out.append("/-- src/event.c _vbi_event_handler_list_add: does re-adding a handler that is marked for")
    out.append("removal clear the mark (`eh->remove = FALSE` in the found-branch)? -/")
    out.append("def readdRevives : Bool := %s" % ("true" if readd_revives else "false"))
    out.append("")
    out.append("end Zvbi.Gen.Ev")
    text = "\n".join(out) + "\n"
    if not os.path.exists(OUT) or open(OUT).read() != text:
        open(OUT, "w").write(text)
        print("gen_ev: wrote", os.path.relpath(OUT))


if __name__ == "__main__":
    main()
