#!/usr/bin/env python3
"""Translator for component `cache` (C10): struct sizes / constants of src/cache-priv.h -> Lean.

A tiny C probe is compiled against /repo's *current* headers and prints the
quantities the cache model depends on (storage size of every cache_page variant as
`cache_page_size()` computes it, HASH_SIZE, the death-row extent, the fixed memory limit,
enum values).  Output: lean/ZvbiModel/Generated/CacheLayout.lean, written only when changed.
The harness prints the same numbers from the compiled library (`sizes` op) and the check
compares them with the generated Lean values on every run.
"""
import os, re, subprocess, sys, tempfile

REPO = os.environ.get("ZVBI_REPO", "/repo")
HERE = os.path.dirname(os.path.abspath(__file__))
OUT = os.path.join(HERE, "..", "lean", "ZvbiModel", "Generated", "CacheLayout.lean")

PROBE = r'''
#include <stdio.h>
#include <stddef.h>
#include "src/cache-priv.h"
#include "src/vbi.h"
int main(void){ cache_page *cp=0;
 printf("hdrSize %zu\n", sizeof(*cp)-sizeof(cp->data));
 printf("lopSize %zu\n", sizeof(cp->data.lop));
 printf("enhLopSize %zu\n", sizeof(cp->data.enh_lop));
 printf("extLopSize %zu\n", sizeof(cp->data.ext_lop));
 printf("popSize %zu\n", sizeof(cp->data.pop));
 printf("drcsSize %zu\n", sizeof(cp->data.drcs));
 printf("aitSize %zu\n", sizeof(cp->data.ait));
 printf("fullSize %zu\n", sizeof(*cp));
 printf("hashSize %d\n", HASH_SIZE);
 printf("nPageStats %zu\n", sizeof(((cache_network*)0)->_pages)/sizeof(((cache_network*)0)->_pages[0]));
 printf("fnUnknown %d\n", (int) PAGE_FUNCTION_UNKNOWN + 16);
 printf("fnLop %d\n", (int) PAGE_FUNCTION_LOP + 16);
 printf("fnGpop %d\n", (int) PAGE_FUNCTION_GPOP + 16);
 printf("fnPop %d\n", (int) PAGE_FUNCTION_POP + 16);
 printf("fnGdrcs %d\n", (int) PAGE_FUNCTION_GDRCS + 16);
 printf("fnDrcs %d\n", (int) PAGE_FUNCTION_DRCS + 16);
 printf("fnAit %d\n", (int) PAGE_FUNCTION_AIT + 16);
 printf("clockPageType %d\n", (int) VBI_NONSTD_SUBPAGES);
 printf("unknownPageType %d\n", (int) VBI_UNKNOWN_PAGE);
 printf("anySubno %d\n", (int) VBI_ANY_SUBNO);
 { struct ttx_page_stat ps; unsigned long long one = 1;
   printf("nSubMod %llu\n", one << (8 * sizeof(ps.n_subpages)));
   printf("maxSubMod %llu\n", one << (8 * sizeof(ps.max_subpages)));
   printf("subnoMinMod %llu\n", one << (8 * sizeof(ps.subno_min)));
   printf("subnoMaxMod %llu\n", one << (8 * sizeof(ps.subno_max))); }
 return 0;}
'''

def from_source():
    """constants that are literals in cache.c (not visible to a probe)"""
    src = open(os.path.join(REPO, "src", "cache.c")).read()
    m = re.search(r"cache_page\s*\*\s*death_row\s*\[\s*(\d+)\s*\]", src)
    if not m:
        raise SystemExit("gen_cache: death_row extent not found")
    death = int(m.group(1))
    m = re.search(r"ca->memory_limit\s*=\s*1\s*<<\s*(\d+)\s*;", src)
    if not m:
        raise SystemExit("gen_cache: memory_limit initialiser not found")
    limit = 1 << int(m.group(1))
    m = re.search(r"ca->n_networks_limit\s*=\s*(\d+)\s*;", src)
    if not m:
        raise SystemExit("gen_cache: n_networks_limit initialiser not found")
    nlimit = int(m.group(1))
    # cache_network_add_page: when does the recorded sub-page range start over?
    body = re.search(r"cache_network_add_page\s*\(.*?\n}\n", src, flags=re.S)
    if not body:
        raise SystemExit("gen_cache: cache_network_add_page not found")
    b = re.sub(r"/\*.*?\*/", " ", body.group(0), flags=re.S)
    b = re.sub(r"\s+", " ", b)
    single_min = re.search(r"if \(1 == ps->n_subpages \|\| cp->subno < ps->subno_min\) ps->subno_min = cp->subno;", b)
    single_max = re.search(r"if \(1 == ps->n_subpages \|\| cp->subno > ps->subno_max\) ps->subno_max = cp->subno;", b)
    legacy_min = re.search(r"if \(0 == ps->subno_min \|\| cp->subno < ps->subno_min\) ps->subno_min = cp->subno;", b)
    legacy_max = re.search(r"if \(cp->subno > ps->subno_max\) ps->subno_max = cp->subno;", b)
    if single_min and single_max:
        rule = True
    elif legacy_min and legacy_max:
        rule = False
    else:
        raise SystemExit("gen_cache: sub-page range rule of cache_network_add_page not recognised")
    # _vbi_cache_foreach_page: look-up used inside the loop, clamp to the first sub-page
    walk = re.search(r"_vbi_cache_foreach_page\s*\(.*?\n}\n", src, flags=re.S)
    if not walk:
        raise SystemExit("gen_cache: _vbi_cache_foreach_page not found")
    w = re.sub(r"/\*.*?\*/", " ", walk.group(0), flags=re.S)
    w = re.sub(r"\s+", " ", w)
    exact = "cp = page_by_pgno (ca, cn, pgno, subno, -1); if (NULL != cp) cp = cache_page_ref (cp);" in w
    clamp = "if (dir > 0 && subno < ps->subno_min) { subno = ps->subno_min; break; }" in w
    stop2 = w.count("if (wrapped) return -1;") == 2
    # _vbi_cache_foreach_page: START look-up through _vbi_cache_get_page (0x3F7F read as VBI_ANY_SUBNO, C17-D7) or
    # exact (fixes/C17-turn-3f7f.diff); same strings as translate/gen_search.py
    start_old = ("if ((cp = _vbi_cache_get_page (ca, cn, pgno, subno, -1))) { subno = cp->subno; } "
                 "else if (VBI_ANY_SUBNO == subno) { cp = NULL; subno = 0; } ps = cache_network_page_stat (cn, pgno);")
    start_new = ("cp = NULL; if (pgno >= 0x100 && pgno <= 0x8FF) { cp = page_by_pgno (ca, cn, pgno, subno, -1); "
                 "if (NULL != cp) cp = cache_page_ref (cp); } ps = cache_network_page_stat (cn, pgno);")
    if (start_old in w) == (start_new in w):
        raise SystemExit("gen_cache: start look-up of _vbi_cache_foreach_page not recognised (neither / both of the known shapes)")
    start_exact = start_new in w
    # the look-up inside the loop occurs once (as found) or, textually the same, a second time as the start look-up
    if w.count("cp = page_by_pgno (ca, cn, pgno, subno, -1);") != (2 if start_exact else 1):
        raise SystemExit("gen_cache: look-ups of _vbi_cache_foreach_page not recognised")
    # _vbi_cache_put_page: does a store under a single-version key (subno_mask 0) delete ALL cached versions
    # of the page number (fixes/C10-put-replaces-all-versions.diff) or only the one the look-up found (F17)?
    put = re.search(r"\n_vbi_cache_put_page\s*\(.*?\n}\n", src, flags=re.S)
    if not put:
        raise SystemExit("gen_cache: _vbi_cache_put_page not found")
    u = re.sub(r"/\*.*?\*/", " ", put.group(0), flags=re.S)
    u = re.sub(r"\s+", " ", u)
    lookup = "old_cp = page_by_pgno (ca, cn, cp->pgno, subno & subno_mask, subno_mask);"
    repaired = (lookup + " if (NULL != old_cp && 0 == subno_mask) { cache_page *cp2, *cp3; "
                "FOR_ALL_NODES (cp2, cp3, ca->hash + hash (cp->pgno), hash_node) { "
                "if (cp2 != old_cp && cp2->pgno == cp->pgno && cp2->network == cn) delete_page (ca, cp2); } "
                "memory_available = ca->memory_limit - ca->memory_used; } if (NULL != old_cp) {")
    asfound = lookup + " if (NULL != old_cp) {"
    if repaired in u:
        allv = True
    elif asfound in u and "0 == subno_mask" not in u and u.count("delete_page (") == 1:
        allv = False
    else:
        raise SystemExit("gen_cache: shape of the replace step of _vbi_cache_put_page not recognised")
    return death, limit, nlimit, rule, exact, clamp, stop2, allv, start_exact

def main():
    with tempfile.TemporaryDirectory() as d:
        c = os.path.join(d, "p.c")
        open(c, "w").write(PROBE)
        exe = os.path.join(d, "p")
        r = subprocess.run(["gcc", "-std=gnu99", "-D_GNU_SOURCE", "-DHAVE_CONFIG_H", "-w", "-I" + REPO,
                            "-I" + os.path.join(REPO, "src"), c, "-o", exe],
                           stdout=subprocess.PIPE, stderr=subprocess.STDOUT)
        if r.returncode != 0:
            raise SystemExit("gen_cache: probe does not compile:\n" + r.stdout.decode()[-2000:])
        out = subprocess.run([exe], stdout=subprocess.PIPE).stdout.decode()
    vals = [l.split() for l in out.strip().split("\n")]
    death, limit, nlimit, rule, exact, clamp, stop2, allv, start_exact = from_source()
    lines = ["-- GENERATED by translate/gen_cache.py from src/cache-priv.h, src/cache.c - do not edit",
             "namespace Zvbi.Gen.Cache", ""]
    for k, v in vals:
        if k.startswith("fn"):
            lines.append("/-- enum ttx_page_function value -/")
            lines.append("def %s : Int := %d" % (k, int(v) - 16))
        else:
            lines.append("def %s : Nat := %s" % (k, v))
    lines.append("/-- extent of `death_row[]` in _vbi_cache_put_page -/")
    lines.append("def deathRowSize : Nat := %d" % death)
    lines.append("/-- `ca->memory_limit` set by vbi_cache_new (not changeable in libzvbi 0.2) -/")
    lines.append("def memoryLimit0 : Nat := %d" % limit)
    lines.append("def nNetworksLimit0 : Nat := %d" % nlimit)
    lines.append("/-- cache_network_add_page: the recorded sub-page range starts over when the page is the only cached")
    lines.append("    sub-page of its number (`1 == ps->n_subpages`); false = the older `0 == ps->subno_min` test -/")
    lines.append("def subRangeRestartsWhenSingle : Bool := %s" % ("true" if rule else "false"))
    lines.append("/-- _vbi_cache_foreach_page: look-up inside the loop is page_by_pgno + cache_page_ref (exact) -/")
    lines.append("def walkExactLookup : Bool := %s" % ("true" if exact else "false"))
    lines.append("/-- _vbi_cache_foreach_page: clamps to the first sub-page in walking direction -/")
    lines.append("def walkClampsToFirst : Bool := %s" % ("true" if clamp else "false"))
    lines.append("/-- _vbi_cache_foreach_page: returns -1 on the second wrap-around -/")
    lines.append("def walkStopsAtSecondWrap : Bool := %s" % ("true" if stop2 else "false"))
    lines.append("/-- _vbi_cache_put_page: a store under a single-version key (subno_mask 0) deletes every cached version of")
    lines.append("    the page number (repair of finding F17); false = only the version the look-up found -/")
    lines.append("def putReplacesAllVersions : Bool := %s" % ("true" if allv else "false"))
    lines.append("/-- _vbi_cache_foreach_page looks up its START position exactly (page_by_pgno behind the page number range test,")
    lines.append("    fixes/C17-turn-3f7f.diff); false = through _vbi_cache_get_page, which reads 0x3F7F as VBI_ANY_SUBNO -/")
    lines.append("def walkStartExact : Bool := %s" % ("true" if start_exact else "false"))
    lines += ["", "end Zvbi.Gen.Cache", ""]
    text = "\n".join(lines)
    old = open(OUT).read() if os.path.exists(OUT) else None
    if old != text:
        os.makedirs(os.path.dirname(OUT), exist_ok=True)
        open(OUT, "w").write(text)
        print("CacheLayout.lean changed")
    else:
        print("CacheLayout.lean unchanged")

if __name__ == "__main__":
    main()
